#!/bin/sh
# builds the simulator core and every quick-tier variant from /repo's current tree (offline, ~1-2 min on 16 cores)
cd "$(dirname "$0")" && exec ./check build quick
