// sim_main.cpp — worker process: seeded runs, shrinking, replay, statistics
#include "sim_core.hpp"
#include "sim_world.hpp"
#include <stdio.h>
#include <stdlib.h>
#include <signal.h>
#include <unistd.h>
#include <set>
#include <fstream>
#include <sstream>

extern "C" const char* __asan_default_options() __attribute__((used, visibility("default")));
extern "C" const char* __asan_default_options() { return "exitcode=77:detect_leaks=0:abort_on_error=0:allocator_may_return_null=1"; }
extern "C" const char* __ubsan_default_options() __attribute__((used, visibility("default")));
extern "C" const char* __ubsan_default_options() { return "halt_on_error=1:exitcode=77:print_stacktrace=1"; }

extern std::set<uint64_t> g_abstract_states;
static volatile long g_current_run = -1;

#include <setjmp.h>
extern sigjmp_buf g_hang_jmp; extern volatile sig_atomic_t g_hang_armed, g_hang_pending; void arm_run_timer(int seconds);
static void on_signal(int sig);
static void on_vtalrm(int sig) {
	if (g_hang_armed && g_in_sut) { g_hang_armed = 0; siglongjmp(g_hang_jmp, 1); }      // inside library code: abandon the call
	if (g_hang_armed) { g_hang_pending = 1; return; }                                    // inside a hook: leave at its end
	on_signal(sig);                                                                      // the harness itself hangs
}

static void on_signal(int sig) {
	char buf[96]; int n = snprintf(buf, sizeof(buf), "\nCRASH run=%ld signal=%d\n", g_current_run, sig);
	if (n > 0) { ssize_t r = write(1, buf, static_cast<size_t>(n)); (void) r; }
	_exit((sig == SIGALRM || sig == SIGVTALRM) ? 78 : 77);
}

static uint64_t str_hash(const char* s) { uint64_t h = 0xcbf29ce484222325ULL; for (; *s; ++s) { h ^= static_cast<uint8_t>(*s); h *= 0x100000001b3ULL; } return h; }

static std::string json_escape(const std::string& s) {
	std::string o; for (size_t i = 0; i < s.size(); ++i) { char c = s[i]; if (c == '"' || c == '\\') { o += '\\'; o += c; } else if (c == '\n') o += "\\n"; else if (static_cast<unsigned char>(c) < 32) o += ' '; else o += c; }
	return o;
}

static bool has_violation(const EvalResult& er, const std::string& prop, const std::string& clause, Violation* first = 0) {
	for (size_t i = 0; i < er.violations.size(); ++i)
		if (er.violations[i].prop == prop && (clause.empty() || er.violations[i].clause == clause)) { if (first) *first = er.violations[i]; return true; }
	return false;
}

//---------------------------------------------------------------------------------------------
// greedy delta debugging on the case; a candidate is accepted only if the same clause of the same property fails

static int g_shrink_evals = 0;
static bool still_fails(const Case& c, const std::string& prop, const std::string& clause) {
	++g_shrink_evals;
	EvalResult er = evaluate_case(c);
	return has_violation(er, prop, clause);
}

static Case shrink_case(Case c, const std::string& prop, const std::string& clause) {
	bool progress = true;
	while (progress && g_shrink_evals < 4000) {
		progress = false;
		// drop chunks of ops, then single ops
		for (size_t chunk = c.ops.size() / 2; chunk >= 1; chunk /= 2) {
			for (size_t start = 1; start + chunk <= c.ops.size();) {
				Case t = c; t.ops.erase(t.ops.begin() + static_cast<long>(start), t.ops.begin() + static_cast<long>(start + chunk));
				if (still_fails(t, prop, clause)) { c = t; progress = true; } else start += chunk;
			}
			if (chunk == 1) break;
		}
		// drop reactions, then actions
		for (size_t i = 0; i < c.ops.size(); ++i) {
			for (size_t r = 0; r < c.ops[i].reactions.size();) {
				Case t = c; t.ops[i].reactions.erase(t.ops[i].reactions.begin() + static_cast<long>(r));
				if (still_fails(t, prop, clause)) { c = t; progress = true; } else ++r;
			}
			for (size_t r = 0; r < c.ops[i].reactions.size(); ++r)
				for (size_t k = 0; c.ops[i].reactions[r].acts.size() > 1 && k < c.ops[i].reactions[r].acts.size();) {
					Case t = c; t.ops[i].reactions[r].acts.erase(t.ops[i].reactions[r].acts.begin() + static_cast<long>(k));
					if (still_fails(t, prop, clause)) { c = t; progress = true; } else ++k;
				}
		}
		// simplify the world
		if (c.replicas) { Case t = c; t.replicas = 0; if (still_fails(t, prop, clause)) { c = t; progress = true; } }
		if (c.logger0) { Case t = c; t.logger0 = 0; if (still_fails(t, prop, clause)) { c = t; progress = true; } }
		if (c.fill) { Case t = c; t.fill = 0; if (still_fails(t, prop, clause)) { c = t; progress = true; } }
		// simpler operations and selectors
		for (size_t i = 1; i < c.ops.size(); ++i) {
			Op& op = c.ops[i];
			if (op.kind == OP_IMM_CHANGE_WITH || op.kind == OP_CHANGE_WITH) { Case t = c; t.ops[i].kind = static_cast<uint8_t>(op.kind == OP_CHANGE_WITH ? OP_CHANGE_TO : OP_IMM_CHANGE_TO); t.ops[i].has_payload = 0; if (still_fails(t, prop, clause)) { c = t; progress = true; } }
			if (op.kind == OP_REACT) { Case t = c; t.ops[i].kind = OP_UPDATE; for (size_t r = 0; r < t.ops[i].reactions.size(); ++r) { uint8_t& m = t.ops[i].reactions[r].method; if (m == M_PRE_REACT) m = M_PRE_UPDATE; else if (m == M_REACT) m = M_UPDATE; else if (m == M_POST_REACT) m = M_POST_UPDATE; } if (still_fails(t, prop, clause)) { c = t; progress = true; } }
			for (size_t r = 0; r < c.ops[i].reactions.size(); ++r) {
				if (c.ops[i].reactions[r].nth == 255) { Case t = c; t.ops[i].reactions[r].nth = 0; if (still_fails(t, prop, clause)) { c = t; progress = true; } }
				if (c.ops[i].reactions[r].inj == 255) { Case t = c; t.ops[i].reactions[r].inj = 0; if (still_fails(t, prop, clause)) { c = t; progress = true; } }
			}
		}
	}
	return c;
}

//---------------------------------------------------------------------------------------------

static std::string replay_text(const Case& c, const Violation& v, uint64_t seed, long run) {
	std::ostringstream o;
	o << "# FFSM2 deterministic-simulation replay file\n";
	o << "variant " << g_info->variant << "\n";
	o << "expect property=" << v.prop << " clause=" << v.clause << "\n";
	o << "message " << v.msg << "\n";
	o << "origin seed=" << seed << " run=" << run << " failing-step=" << v.op_index << " node=" << v.node << "\n";
	o << case_to_text(c);
	return o.str();
}

static bool read_file(const char* path, std::string& out) { std::ifstream f(path); if (!f) return false; std::stringstream ss; ss << f.rdbuf(); out = ss.str(); return true; }

int main(int argc, char** argv) {
	std::string prop = "C01", replay, out_prefix = "/tmp/ffsm2-sim", dump;
	uint64_t seed = 1; long from = 0, to = 1000; int max_ops = 120; bool all = false; int samples = 3; bool do_shrink = true; bool quiet = false;
	bool in_contract = false, neutral = false; bool digests = false; std::string prop_seed, seed_name, use; bool ignore_log = false;
	for (int i = 1; i < argc; ++i) {
		std::string a = argv[i];
		#define NEXT (i + 1 < argc ? argv[++i] : "")
		if (a == "--prop") prop = NEXT; else if (a == "--seed") seed = strtoull(NEXT, 0, 10);
		else if (a == "--from") from = atol(NEXT); else if (a == "--to") to = atol(NEXT);
		else if (a == "--max-ops") max_ops = atoi(NEXT); else if (a == "--replay") replay = NEXT;
		else if (a == "--all") all = true; else if (a == "--samples") samples = atoi(NEXT);
		else if (a == "--out") out_prefix = NEXT; else if (a == "--no-shrink") do_shrink = false;
		else if (a == "--quiet") quiet = true; else if (a == "--in-contract") in_contract = true;
		else if (a == "--neutral") neutral = true; else if (a == "--digests") digests = true;
		else if (a == "--use") use = NEXT;
		else if (a == "--seed-name") seed_name = NEXT; else if (a == "--ignore-log") ignore_log = true;
		else if (a == "--dump-case") dump = NEXT; else if (a == "--profile-prop") prop_seed = NEXT;
		else if (a == "--info") { const SutInfo* s = sut_info(); printf("variant=%s N=%u L=%u C=%u inst_size=%u\n", s->variant, s->n_states, s->limit, s->capacity, s->inst_size); return 0; }
		#undef NEXT
	}
	g_info = sut_info();
	signal(SIGSEGV, on_signal); signal(SIGBUS, on_signal); signal(SIGFPE, on_signal); signal(SIGILL, on_signal); signal(SIGABRT, on_signal); signal(SIGALRM, on_signal); signal(SIGVTALRM, on_vtalrm);
	setvbuf(stdout, 0, _IOLBF, 0);

	if (!replay.empty()) {
		std::string text, err; if (!read_file(replay.c_str(), text)) { fprintf(stderr, "cannot read %s\n", replay.c_str()); return 2; }
		std::string eprop, eclause; {
			std::stringstream ss(text); std::string line;
			while (std::getline(ss, line)) if (line.compare(0, 7, "expect ") == 0) {
				size_t p = line.find("property="), c = line.find("clause=");
				if (p != std::string::npos) { eprop = line.substr(p + 9, line.find(' ', p) - p - 9); }
				if (c != std::string::npos) { eclause = line.substr(c + 7); while (!eclause.empty() && (eclause[eclause.size() - 1] == ' ' || eclause[eclause.size() - 1] == '\r')) eclause.erase(eclause.size() - 1); }
			}
		}
		size_t cpos = text.find("\ncase "); if (cpos == std::string::npos && text.compare(0, 5, "case ") != 0) { fprintf(stderr, "no case in replay file\n"); return 2; }
		Case c; if (!case_from_text(text.substr(cpos == std::string::npos ? 0 : cpos + 1), c, err)) { fprintf(stderr, "bad replay file: %s\n", err.c_str()); return 2; }
		g_current_run = 0; alarm(120); arm_run_timer(8);
		EvalResult e1 = evaluate_case(c); arm_run_timer(8); EvalResult e2 = evaluate_case(c);
		alarm(0); arm_run_timer(0);
		bool det = e1.digest_full == e2.digest_full && e1.violations.size() == e2.violations.size();
		printf("REPLAY variant=%s digest=%016llx deterministic=%d violations=%zu\n", g_info->variant, static_cast<unsigned long long>(e1.digest_full), det ? 1 : 0, e1.violations.size());
		for (size_t i = 0; i < e1.violations.size(); ++i) printf("  violation property=%s clause=%s step=%d node=%d: %s\n", e1.violations[i].prop.c_str(), e1.violations[i].clause.c_str(), e1.violations[i].op_index, e1.violations[i].node, e1.violations[i].msg.c_str());
		if (!det) return 2;
		if (!eprop.empty()) { bool hit = has_violation(e1, eprop, eclause); printf("REPLAY-RESULT expected property=%s clause=%s reproduced=%d\n", eprop.c_str(), eclause.c_str(), hit ? 1 : 0); return hit ? 1 : 0; }
		return e1.violations.empty() ? 0 : 1;
	}

	GenProfile prof; prof.prop = prop_seed.empty() ? prop : prop_seed; prof.max_ops = max_ops; prof.in_contract = in_contract; prof.neutral = neutral; prof.ignore_log = ignore_log; prof.use = use;
	const uint64_t vh = neutral ? 0 : !seed_name.empty() ? str_hash(seed_name.c_str()) : str_hash(g_info->variant), ph = str_hash(prof.prop.c_str());
	std::set<uint64_t> distinct_runs, distinct_states; std::vector<std::string> sample_texts; std::map<std::string, uint64_t> other;
	uint64_t nontrivial_runs = 0, violations = 0; int exit_code = 0;
	std::string viol_line;

	if (!dump.empty()) {
		long run = atol(dump.c_str());
		Rng rng(mix_seed(seed, ph, vh, static_cast<uint64_t>(run)));
		Case c = generate_case(rng, *g_info, prof);
		Violation v; v.prop = prop; v.clause = "crash"; v.msg = "process crashed or sanitizer report";
		fputs(replay_text(c, v, seed, run).c_str(), stdout);
		return 0;
	}

	for (long run = from; run < to; ++run) {
		g_current_run = run;
		if (!quiet && (run - from) % 256 == 0) printf("BEGIN run=%ld\n", run);
		Rng rng(mix_seed(seed, ph, vh, static_cast<uint64_t>(run)));
		Case c = generate_case(rng, *g_info, prof);
		alarm(300); arm_run_timer(8);          // CPU-time watchdog (immune to machine load) + a generous wall-clock backstop
		EvalResult er = evaluate_case(c);
		alarm(0); arm_run_timer(0);
		if (g_stats.probe.count("calls_abandoned_by_watchdog") && g_stats.probe["calls_abandoned_by_watchdog"] >= 12 && prop != "C04" && prop != "C18") { printf("ABORTS-LIMIT run=%ld: too many calls abandoned by the watchdog, this worker stops early\n", run); break; }
		if (digests) printf("DIGEST run=%ld neutral=%016llx full=%016llx\n", run, static_cast<unsigned long long>(er.digest_neutral), static_cast<unsigned long long>(er.digest_full));
		if (er.nontrivial) { ++nontrivial_runs; distinct_runs.insert(er.digest_full); }
		distinct_states.insert(er.digest_neutral ^ 0x5555);
		if (static_cast<int>(sample_texts.size()) < samples && er.nontrivial && c.ops.size() <= 8) sample_texts.push_back(case_to_text(c));
		for (size_t i = 0; i < er.violations.size(); ++i) ++other[er.violations[i].prop + "/" + er.violations[i].clause];
		Violation v;
		bool hit = all ? !er.violations.empty() : has_violation(er, prop, "", &v);
		if (all && hit) v = er.violations[0];
		if (hit) {
			++violations;
			Case m = c;
			if (do_shrink) { alarm(600); g_shrink_evals = 0; m = shrink_case(c, v.prop, v.clause); alarm(0); }
			EvalResult a = evaluate_case(m), b = evaluate_case(m);
			Violation mv; bool okA = has_violation(a, v.prop, v.clause, &mv), okB = has_violation(b, v.prop, v.clause);
			char path[512]; snprintf(path, sizeof(path), "%s-%s-%llu-%ld.case", out_prefix.c_str(), v.prop.c_str(), static_cast<unsigned long long>(seed), run);
			std::ofstream f(path); f << replay_text(m, okA ? mv : v, seed, run); f.close();
			bool det = okA && okB && a.digest_full == b.digest_full;
			printf("VIOLATION-CANDIDATE property=%s clause=%s replay=%s deterministic=%d ops=%zu shrink_evals=%d msg=%s\n", v.prop.c_str(), v.clause.c_str(), path, det ? 1 : 0, m.ops.size(), g_shrink_evals, (okA ? mv : v).msg.c_str());
			exit_code = det ? 1 : 2;
			break;
		}
	}
	// statistics line (JSON)
	std::ostringstream js;
	js << "{\"variant\":\"" << g_info->variant << "\",\"runs\":" << g_stats.runs << ",\"executions\":" << (g_stats.runs ? g_stats.ops : 0) << ",\"ops\":" << g_stats.ops
	   << ",\"hooks\":" << g_stats.hooks << ",\"ticks\":" << g_stats.ticks << ",\"actions\":" << g_stats.actions
	   << ",\"nontrivial_runs\":" << nontrivial_runs << ",\"distinct_nontrivial\":" << distinct_runs.size() << ",\"distinct_traces\":" << distinct_states.size()
	   << ",\"distinct_abstract_states\":" << g_abstract_states.size() << ",\"violations\":" << violations << ",\"probes\":{";
	bool first = true;
	for (std::map<std::string, uint64_t>::iterator it = g_stats.probe.begin(); it != g_stats.probe.end(); ++it) { if (!first) js << ","; first = false; js << "\"" << it->first << "\":" << it->second; }
	js << "},\"other\":{"; first = true;
	for (std::map<std::string, uint64_t>::iterator it = other.begin(); it != other.end(); ++it) { if (!first) js << ","; first = false; js << "\"" << it->first << "\":" << it->second; }
	js << "},\"digests\":[";
	{ int k = 0; for (std::set<uint64_t>::iterator it = distinct_runs.begin(); it != distinct_runs.end() && k < 200000; ++it, ++k) { if (k) js << ","; js << "\"" << std::hex << *it << std::dec << "\""; } }
	js << "],\"samples\":[";
	for (size_t i = 0; i < sample_texts.size(); ++i) { if (i) js << ","; js << "\"" << json_escape(sample_texts[i]) << "\""; }
	js << "]}";
	printf("STATS %s\n", js.str().c_str());
	return exit_code;
}
