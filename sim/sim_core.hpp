// sim_core.hpp — simulator core types (knows nothing about FFSM2 types; talks to sut.cpp via sut_api.h)
#pragma once
#include <stdint.h>
#include <string.h>
#include <string>
#include <vector>
#include <map>
#include "sut_api.h"

//---------------------------------------------------------------------------------------------
// PRNG: splitmix64 seeding + xoshiro256**; one integer decides everything

static inline uint64_t splitmix64(uint64_t& x) {
	uint64_t z = (x += 0x9e3779b97f4a7c15ULL);
	z = (z ^ (z >> 30)) * 0xbf58476d1ce4e5b9ULL;
	z = (z ^ (z >> 27)) * 0x94d049bb133111ebULL;
	return z ^ (z >> 31);
}
static inline uint64_t mix_seed(uint64_t a, uint64_t b, uint64_t c, uint64_t d) {
	uint64_t x = a; uint64_t r = splitmix64(x);
	x ^= b * 0x9e3779b97f4a7c15ULL; r ^= splitmix64(x);
	x ^= c * 0xc2b2ae3d27d4eb4fULL; r ^= splitmix64(x);
	x ^= d * 0x165667b19e3779f9ULL; r ^= splitmix64(x);
	return r;
}
struct Rng {
	uint64_t s[4];
	explicit Rng(uint64_t seed = 1) { uint64_t x = seed; for (int i = 0; i < 4; ++i) s[i] = splitmix64(x); }
	static inline uint64_t rotl(uint64_t x, int k) { return (x << k) | (x >> (64 - k)); }
	uint64_t next() {
		const uint64_t r = rotl(s[1] * 5, 7) * 9, t = s[1] << 17;
		s[2] ^= s[0]; s[3] ^= s[1]; s[1] ^= s[2]; s[0] ^= s[3]; s[2] ^= t; s[3] = rotl(s[3], 45);
		return r;
	}
	uint32_t below(uint32_t n) { return n ? static_cast<uint32_t>((next() >> 32) * static_cast<uint64_t>(n) >> 32) : 0; }
	bool chance(uint32_t num, uint32_t den) { return below(den) < num; }
	int range(int lo, int hi) { return lo + static_cast<int>(below(static_cast<uint32_t>(hi - lo + 1))); }
};

//---------------------------------------------------------------------------------------------
// cases

enum OpKind {
	OP_UPDATE, OP_REACT, OP_QUERY, OP_CHANGE_TO, OP_CHANGE_WITH, OP_IMM_CHANGE_TO, OP_IMM_CHANGE_WITH,
	OP_PLAN_APPEND, OP_PLAN_APPEND_WITH, OP_PLAN_REMOVE_NTH, OP_PLAN_CLEAR, OP_PLAN_WALK, OP_PLAN_FILL,
	OP_SUCCEED, OP_FAIL,
	OP_SAVE, OP_LOAD, OP_CRASH_RESTART, OP_CLEAN_RESTART,
	OP_ENTER, OP_EXIT, OP_COPY, OP_REPLAY_TRANSITION,
	OP_DELIVER, OP_LOGGER_ATTACH, OP_LOGGER_DETACH,
	OP_CHANNEL_DROP, OP_CHANNEL_DUP, OP_CHANNEL_SWAP,
	OP_CONSTRUCT,
	OP_COUNT
};
extern const char* const OP_NAMES[OP_COUNT];
extern const char* const METHOD_NAMES[M_COUNT];
extern const char* const ACTION_NAMES[A_COUNT];

enum Who { W_ANY, W_ROOT, W_ACTIVE, W_STATE };

struct Reaction {
	uint8_t method = M_NONE;
	uint8_t who = W_ANY;
	uint8_t state = 0;       // W_STATE: index (mod N)
	uint8_t inj = 0;         // 0 = the class itself, 1..3 = that injection, 255 = any
	uint8_t nth = 0;         // fire on the nth matching invocation within the op (255 = every)
	std::vector<SutAction> acts;
};

struct Op {
	uint8_t kind = OP_UPDATE;
	int a = 0, b = 0, c = 0;
	uint8_t has_payload = 0;
	uint8_t payload[SUT_MAX_PAYLOAD];
	uint8_t mask[32];
	std::vector<Reaction> reactions;
	Op() { memset(payload, 0, sizeof(payload)); memset(mask, 0, sizeof(mask)); }
};

struct Case {
	uint8_t fill = 0;            // arena fill kind: 0=0x00 1=0xFF 2=0xAA 3=random
	uint64_t paint = 0;          // stack paint word / random-fill seed
	uint8_t logger0 = 0;         // logger attached from construction
	uint8_t replicas = 0;        // number of replica instances fed through the channel (0..2)
	uint8_t in_contract = 0;     // never exceed the substitution limit (C18 profile)
	uint8_t vlog = 0;            // verbose build, logger attached for the whole run: plan outcomes of a machine without plan-outcome callbacks are observed through their verbose method records
	uint8_t lossy = 0;           // replication channel may drop / duplicate / reorder transition messages (healed at the end)
	std::vector<Op> ops;         // ops[0] is always OP_CONSTRUCT (its reactions apply to the activation of an automatic machine)
};

std::string case_to_text(const Case& c);
bool case_from_text(const std::string& text, Case& out, std::string& err);

//---------------------------------------------------------------------------------------------
// violations

struct Violation {
	std::string prop;        // "C02"
	std::string clause;      // stable short id, e.g. "c-last-survivor"
	std::string msg;
	int op_index = -1;
	int node = 0;
};

//---------------------------------------------------------------------------------------------
// statistics / probes of reach

struct Stats {
	uint64_t runs = 0, ops = 0, hooks = 0, ticks = 0, actions = 0;
	std::map<std::string, uint64_t> probe;   // what actually fired
	void hit(const char* k, uint64_t n = 1) { probe[k] += n; }
};
extern Stats g_stats;

//---------------------------------------------------------------------------------------------
// generator

struct GenProfile {
	std::string prop;            // emphasis
	bool in_contract = false;    // C18 profile: never exceed the substitution limit etc.
	bool neutral = false;        // C19 profile: only feature-neutral operations
	bool ignore_log = false;     // generate as if the build had no logging (cross-build comparison for C16)
	std::string use;             // with `neutral`: the features (P, S, H) the generated program nevertheless uses
	int max_ops = 120;
};
Case generate_case(Rng& rng, const SutInfo& info, const GenProfile& prof);

//---------------------------------------------------------------------------------------------
// execution

struct ExecMode {
	int fill_override = -1;      // -1 = as in case
	int logger_mode = 0;         // 0 = as in case, 1 = never, 2 = always attached
	bool record_samples = false;
};

struct RunResult {
	std::vector<Violation> violations;
	std::vector<uint64_t> op_digest_full;     // per op, node 0
	std::vector<uint64_t> op_digest_neutral;  // per op, node 0, feature/log independent
	uint64_t digest_full = 0, digest_neutral = 0;
	uint64_t abstract_state_hash = 0;
	bool nontrivial = false;
	bool aborted = false;
};

RunResult execute_case(const Case& c, const ExecMode& mode);

// full evaluation of one case: base execution + differential executions; returns all violations
struct EvalResult {
	std::vector<Violation> violations;
	uint64_t digest_full = 0, digest_neutral = 0;
	bool nontrivial = false;
};
EvalResult evaluate_case(const Case& c);

// allocator seam
extern volatile int g_in_sut;
extern uint64_t g_allocs_in_sut;
