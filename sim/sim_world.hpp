// sim_world.hpp — world state shared by executor (sim_exec.cpp) and monitors (sim_mon.cpp)
#pragma once
#include "sim_core.hpp"
#include <set>

enum { OPX_DESTROY = OP_COUNT, OPX_REPLICA_CONSTRUCT, OPX_REPLAY_MSG };

struct PlanSnap {
	bool available = false, nonempty = false, overflow = false;
	uint8_t first_o = SUT_INVALID, first_d = SUT_INVALID, last_o = SUT_INVALID, last_d = SUT_INVALID;
	std::vector<SutTask> tasks;
};
void plan_from_sut(PlanSnap& out, const SutPlan& in);

struct HookEv {
	uint8_t method, cls, inj, flavour, step, state_id, ev_type;
	uint64_t ev_value; const void* ev_addr;
	const void* self; uint32_t self_hits; const void* ctx_a; const void* ctx_b; uint64_t ctx_tag;
	SutTrans request, pending, current, previous;
	uint8_t has_pending, has_current, has_previous;
	uint8_t active[32]; uint8_t active_tmpl_ok; uint8_t active_invalid = 0, machine_active_invalid = 0;
	int machine_active;                 // instance.activeStateId() read during the hook
	int machine_is_active = -1;         // manual machines: instance.isActive() read during the hook
	PlanSnap plan; uint8_t plan_m_same;
	uint8_t last_kind, last_result;
	std::vector<SutTask> walk;
	SutAction action;                   // what the simulator answered (A_NONE = return)
};

struct LogEv { uint8_t kind, origin, arg; uint8_t ctx_ok; uint32_t pos; uint16_t grp = 0; };   // pos = number of hook events before it

struct Obs {
	bool valid = false;
	int active_id = SUT_INVALID;
	uint8_t active[32];
	bool tmpl_ok = true;
	int manual_active = -1;
	PlanSnap plan; bool plan_m_same = true;
	SutTrans prev; bool has_prev = false;
	std::vector<uint8_t> serial; bool has_serial = false;
	const void* ctx_addr = 0; uint64_t ctx_tag = 0;
	uint32_t ctx_copies = 0, ctx_moves = 0;   // value-context copy/move constructions since the execution began
	Obs() { memset(active, 0, sizeof(active)); memset(&prev, 0, sizeof(prev)); }
};

struct Req {                            // a transition request as the harness knows it
	bool has = false;
	uint8_t origin = SUT_INVALID, dest = SUT_INVALID;
	bool has_payload = false;
	bool from_task = false;             // issued by a plan task that fired
	uint8_t payload[SUT_MAX_PAYLOAD];
	Req() { memset(payload, 0, sizeof(payload)); }
	void clear() { has = false; }
};

struct Tracked {                        // reconstructed from what was observed plus what the harness did
	bool active = false;
	int open = -1;                      // state whose enter ran last without exit
	bool root_open = false;
	Req slot;                           // outstanding request
	std::vector<SutTask> mirror;        // plan as the harness knows it
	bool task_added = false;            // since activation
	uint8_t mayS[32], mayF[32], mustS[32];
	Req prev, prev_alt; bool prev_known = true, prev_alt_ok = false;   // expected previousTransition()
	Req last_consumed;                  // the request the last processing round took out of the slot
	bool logger = false;
	std::set<uint64_t> fired_keys;      // payload identities of tasks that have fired (C08: once only)
	Tracked() { memset(mayS, 0, 32); memset(mayF, 0, 32); memset(mustS, 0, 32); }
};

struct OpExec {                         // one executed operation on one node
	int kind = 0; int a = 0, b = 0, c = 0;
	bool has_payload = false; uint8_t payload[SUT_MAX_PAYLOAD]; uint8_t mask[32];
	int op_index = -1;
	bool executed = false;              // false: skipped as illegal in the current state
	int result = 0;                     // API return value where there is one
	std::vector<int> results;           // PLAN_FILL: per append
	std::vector<SutTask> filled;        // PLAN_FILL: the tasks as appended
	std::vector<SutTask> walk;          // PLAN_WALK: visited
	std::vector<HookEv> hooks;
	std::vector<LogEv> logs;
	Obs before, after;
	// serialization
	std::vector<uint8_t> saved_bytes, loaded_bytes; bool canary_ok = true, save_differs = false, compare_bad = false; int snapshot_index = -1;
	bool saved_active = false; int saved_state = -1;           // LOAD: what the snapshot holds
	bool budget_exceeded = false;
	OpExec() { memset(payload, 0, sizeof(payload)); memset(mask, 0, sizeof(mask)); }
};

enum Role { ROLE_AUTH, ROLE_FORK, ROLE_REPLICA, ROLE_ZOMBIE /* moved-from: only destroyed, never judged */ };

struct Node {
	void* inst = 0; int slot = -1; bool alive = false; int role = ROLE_AUTH; int ctx_slot = 0; uint64_t tag = 0;
	Tracked T;
	uint64_t digest_full = 0, digest_neutral = 0;
	uint64_t last_obs = 0; bool last_obs_set = false;
	uint32_t payload_seq = 0;           // stamped into bytes 0..1 of every payload issued to this instance (a copy continues its original's count)
};

struct Snapshot { std::vector<uint8_t> bytes; bool active; int state; std::vector<uint8_t> objmem; };

struct Msg { int kind; int dest; int expect_active; };   // kind: 0 TRANS, 1 ENTER, 2 EXIT

extern const SutInfo* g_info;
extern int g_case_vlog;            // plan outcomes are observed through verbose method records in this execution
extern int g_logger_mode;          // ExecMode::logger_mode of the execution in progress

// monitors (sim_mon.cpp)
void check_op(Node& n, int node_index, OpExec& x, std::vector<Violation>& out);
void mark_nontrivial(const char* probe);
void check_static(std::vector<Violation>& out);
uint64_t hash_op(const OpExec& x, bool neutral);
uint64_t abstract_state(const Node& n, const Obs& o);
uint64_t obs_hash(const Obs& o);

static inline bool bit_get(const uint8_t* b, unsigned i) { return (b[i >> 3] >> (i & 7)) & 1; }
static inline void bit_set(uint8_t* b, unsigned i, bool v) { if (v) b[i >> 3] = static_cast<uint8_t>(b[i >> 3] | (1u << (i & 7))); else b[i >> 3] = static_cast<uint8_t>(b[i >> 3] & ~(1u << (i & 7))); }
static inline bool defines(int cls, int method) { return g_info->defines[cls & 255][method] != 0; }
static inline int n_inj(int cls) {
	int k = cls == SUT_INVALID ? g_info->root_kind : g_info->kind[cls];
	return k == K_INJ1 ? 1 : k == K_INJ2 ? 2 : k == K_INJ3 ? 3 : 0;
}
// a state class that defines nothing itself and has one injection: the only invocation of a delivery is injection 1
static inline int own_inj(int cls) { return (cls != SUT_INVALID && g_info->kind[cls] == K_INJ1N) ? 1 : 0; }
