// sim_exec.cpp — the world: arena, instances, snapshot store, replication channel, executor, hooks
#include "sim_world.hpp"
#include <stdio.h>
#include <stdlib.h>
#include <deque>
#include <set>
#include <new>
#include <valgrind/memcheck.h>
#include <setjmp.h>
#include <signal.h>
#include <sys/time.h>

const SutInfo* g_info = 0;
int g_logger_mode = 0;
int g_case_vlog = 0;

static bool reports_allowed();
volatile int g_in_sut = 0;
uint64_t g_allocs_in_sut = 0;
Stats g_stats;

// watchdog: a CPU-time timer armed per run; if it fires while an FFSM2 call is on the stack the call is abandoned
// (C04: the call does not return), the instance is given up and the run ends -- the worker survives and reports
// whatever the monitors had already seen in that run
sigjmp_buf g_hang_jmp; volatile sig_atomic_t g_hang_armed = 0, g_hang_pending = 0;
void arm_run_timer(int seconds) { struct itimerval t; memset(&t, 0, sizeof(t)); t.it_value.tv_sec = seconds; setitimer(ITIMER_VIRTUAL, &t, 0); }
std::set<uint64_t> g_abstract_states;

//---------------------------------------------------------------------------------------------
// allocator seam: every allocation made while an FFSM2 call is on the stack and no hook is running

static void* counted_alloc(size_t n) {
	if (g_in_sut) ++g_allocs_in_sut;
	void* p = malloc(n ? n : 1);
	if (!p) abort();
	return p;
}
void* operator new(size_t n) { return counted_alloc(n); }
void* operator new[](size_t n) { return counted_alloc(n); }
void operator delete(void* p) noexcept { if (g_in_sut && p) ++g_allocs_in_sut; free(p); }
void operator delete[](void* p) noexcept { if (g_in_sut && p) ++g_allocs_in_sut; free(p); }
void operator delete(void* p, size_t) noexcept { if (g_in_sut && p) ++g_allocs_in_sut; free(p); }
void operator delete[](void* p, size_t) noexcept { if (g_in_sut && p) ++g_allocs_in_sut; free(p); }

#ifdef SIM_WRAP_MALLOC
// plain builds are linked with -Wl,--wrap=malloc,--wrap=calloc,--wrap=realloc,--wrap=free,... so that C-level
// allocation from inside the SUT window is counted as well
extern "C" {
void* __real_malloc(size_t); void* __real_calloc(size_t, size_t); void* __real_realloc(void*, size_t); void __real_free(void*);
void* __real_aligned_alloc(size_t, size_t); int __real_posix_memalign(void**, size_t, size_t);
void* __wrap_malloc(size_t n) { if (g_in_sut) ++g_allocs_in_sut; return __real_malloc(n); }
void* __wrap_calloc(size_t a, size_t b) { if (g_in_sut) ++g_allocs_in_sut; return __real_calloc(a, b); }
void* __wrap_realloc(void* p, size_t n) { if (g_in_sut) ++g_allocs_in_sut; return __real_realloc(p, n); }
void  __wrap_free(void* p) { if (g_in_sut && p) ++g_allocs_in_sut; __real_free(p); }
void* __wrap_aligned_alloc(size_t a, size_t n) { if (g_in_sut) ++g_allocs_in_sut; return __real_aligned_alloc(a, n); }
int   __wrap_posix_memalign(void** p, size_t a, size_t n) { if (g_in_sut) ++g_allocs_in_sut; return __real_posix_memalign(p, a, n); }
}
#endif

//---------------------------------------------------------------------------------------------

void plan_from_sut(PlanSnap& out, const SutPlan& in) {
	out.available = in.available; out.nonempty = in.nonempty; out.overflow = in.count > SUT_MAX_TASKS;
	out.first_o = in.first_o; out.first_d = in.first_d; out.last_o = in.last_o; out.last_d = in.last_d;
	unsigned n = in.count > SUT_MAX_TASKS ? SUT_MAX_TASKS : in.count;
	out.tasks.assign(in.tasks, in.tasks + n);
}

enum { ARENA_SLOTS = 8, MAX_FORKS = 2, MAX_SNAPS = 12 };

struct World {
	std::vector<Node> nodes;
	std::vector<Snapshot> snaps;
	std::deque<Msg> channel;
	const Case* c = 0; ExecMode mode;
	RunResult* rr = 0;
	uint8_t* arena = 0; size_t slot_size = 0; bool slot_used[ARENA_SLOTS];
	uint64_t fill_seed = 0; int fill_kind = 0;
	// hook context
	Node* cur = 0; int cur_index = 0; OpExec* curx = 0; const Op* curop = 0;
	std::vector<int> match_counts; int open_at_start = -1; bool activation = false; bool passive = false;
	std::deque<SutAction> pending; int guard_requests = 0; size_t hook_budget = 0;
	const void* react_addr = 0;
	int next_slot_hint = 0;
	bool run_nontrivial = false;
	uint32_t ctx_copies0 = 0, ctx_moves0 = 0;
	std::vector<uint64_t> op_hashes;   // full hashes of the OpExecs finished since last cleared
};
static World W;
static SutPlan g_plan_buf;

static void nontrivial(const char* probe) { g_stats.hit(probe); W.run_nontrivial = true; }

//---------------------------------------------------------------------------------------------
// arena and stack paint

static void fill_bytes(uint8_t* p, size_t n, int kind, uint64_t& seed) {
	switch (kind) {
	case 0: memset(p, 0x00, n); break;
	case 1: memset(p, 0xFF, n); break;
	case 2: memset(p, 0xAA, n); break;
	default: for (size_t i = 0; i < n; ++i) p[i] = static_cast<uint8_t>(splitmix64(seed)); break;
	}
}

#if defined(__clang__)
__attribute__((noinline, optnone))
#else
__attribute__((noinline, optimize("O0")))
#endif
static void paint_stack(int kind, uint64_t seed) {
	volatile uint8_t buf[24 * 1024];
	uint64_t s = seed;
	for (size_t i = 0; i < sizeof(buf); ++i) {
		uint8_t b = kind == 0 ? 0x00 : kind == 1 ? 0xFF : kind == 2 ? 0xAA : static_cast<uint8_t>(splitmix64(s));
		buf[i] = b;
	}
}

static int pick_slot() {
	for (int k = 0; k < ARENA_SLOTS; ++k) {
		int s = (W.next_slot_hint + k) % ARENA_SLOTS;
		if (!W.slot_used[s]) { W.slot_used[s] = true; W.next_slot_hint = s + 3; return s; }
	}
	return -1;
}
static uint8_t* slot_mem(int s) { return W.arena + static_cast<size_t>(s) * W.slot_size; }
static void dirty_slot(int s) {
	uint64_t seed = W.fill_seed ^ (0x1234567ULL * static_cast<uint64_t>(s + 1)); fill_bytes(slot_mem(s), W.slot_size, W.fill_kind, seed);
	// under valgrind memcheck the prior contents are additionally *undefined*: any read the constructors leave to chance is reported
	if (RUNNING_ON_VALGRIND) { VALGRIND_MAKE_MEM_UNDEFINED(slot_mem(s), W.slot_size); }
}

//---------------------------------------------------------------------------------------------
// observation

static void observe(Node& n, Obs& o) {
	o = Obs();
	if (!n.alive) return;
	o.valid = true;
	o.active_id = sut_active_id(n.inst);
	for (unsigned i = 0; i < g_info->n_states; ++i) {
		bool a = sut_is_active_id(n.inst, static_cast<int>(i)) != 0;
		bit_set(o.active, i, a);
		if ((sut_is_active_tmpl(n.inst, static_cast<int>(i)) != 0) != a) o.tmpl_ok = false;
	}
	o.manual_active = sut_is_active(n.inst);
	if (g_info->f_plans) {
		sut_plan_read(n.inst, &g_plan_buf); plan_from_sut(o.plan, g_plan_buf);
		PlanSnap m; sut_plan_read_m(n.inst, &g_plan_buf); plan_from_sut(m, g_plan_buf);
		o.plan_m_same = m.nonempty == o.plan.nonempty && m.tasks.size() == o.plan.tasks.size() &&
			(m.tasks.empty() || memcmp(&m.tasks[0], &o.plan.tasks[0], m.tasks.size() * sizeof(SutTask)) == 0);
	}
	if (g_info->f_history) { sut_previous(n.inst, &o.prev); o.has_prev = true; }
	o.ctx_addr = sut_context_addr(n.inst); o.ctx_tag = sut_context_tag(n.inst);
	{ uint32_t c = 0, m = 0; sut_context_counts(&c, &m); o.ctx_copies = c - W.ctx_copies0; o.ctx_moves = m - W.ctx_moves0; }
	if (g_info->f_serial && (g_info->manual || o.active_id != SUT_INVALID)) {
		std::vector<uint8_t> mem(g_info->serial_obj_size + 64, 0);
		sut_serial_init(&mem[32], 0);
		sut_save(n.inst, &mem[32]);
		o.serial.resize(g_info->serial_bytes);
		sut_serial_bytes(&mem[32], &o.serial[0]);
		o.has_serial = true;
	}
}

//---------------------------------------------------------------------------------------------
// hooks

static int flavour_rank_ok(int flavour, int kind) {
	switch (kind) {
	case A_LOGGER_ATTACH: case A_LOGGER_DETACH: return g_info->f_log != 0 && !W.c->vlog;
	case A_CANCEL: return flavour == CF_GUARD;
	case A_CHANGE_TO: case A_CHANGE_WITH: case A_SUCCEED_SELF: case A_FAIL_SELF: case A_SUCCEED: case A_FAIL:
		return flavour == CF_GUARD || flavour == CF_FULL;
	case A_PLAN_APPEND: case A_PLAN_APPEND_WITH: case A_PLAN_REMOVE_NTH: case A_PLAN_CLEAR: case A_PLAN_WALK:
		return flavour != CF_CONST;
	default: return 0;
	}
}

static bool normalise_action(SutAction& a, const SutView* v) {
	const unsigned N = g_info->n_states;
	if (!flavour_rank_ok(v->flavour, a.kind)) return false;
	bool is_plan = a.kind >= A_PLAN_APPEND && a.kind <= A_PLAN_WALK;
	bool is_report = a.kind >= A_SUCCEED_SELF && a.kind <= A_FAIL;
	if ((is_plan || is_report) && !g_info->f_plans) return false;
	if (is_report && !reports_allowed()) return false;   // plan outcomes must be observable
	if ((a.kind == A_SUCCEED_SELF || a.kind == A_FAIL_SELF) && v->cls == SUT_INVALID) return false;
	if (a.kind == A_CANCEL && W.activation) return false;
	if (a.kind == A_CHANGE_WITH && g_info->payload_kind == P_VOID) { a.kind = A_CHANGE_TO; a.has_payload = 0; }
	if (a.kind == A_PLAN_APPEND_WITH && g_info->payload_kind == P_VOID) { a.kind = A_PLAN_APPEND; a.has_payload = 0; }
	if (a.kind != A_PLAN_WALK && a.mask[31]) {
		// "self": the state this callback belongs to (for the root: the state that was active when the call began)
		const int self = v->cls != SUT_INVALID ? v->cls : (W.open_at_start >= 0 ? W.open_at_start : 0);
		if (a.mask[31] & 1) a.a = static_cast<uint8_t>(self);
		if (a.mask[31] & 2) a.b = static_cast<uint8_t>(self);
		a.mask[31] = 0;
	}
	if (a.kind != A_PLAN_WALK && a.mask[30] && !sut_typed_available()) a.mask[30] = 0;
	if (a.kind != A_CHANGE_WITH) { if (a.kind != A_PLAN_WALK) a.mask[29] = 0; } else if (a.mask[29]) a.mask[30] = 0;
	if (a.kind == A_CHANGE_TO || a.kind == A_CHANGE_WITH || a.kind == A_SUCCEED || a.kind == A_FAIL) a.a = static_cast<uint8_t>(a.a % N);
	if (a.kind == A_PLAN_APPEND || a.kind == A_PLAN_APPEND_WITH) { a.a = static_cast<uint8_t>(a.a % N); a.b = static_cast<uint8_t>(a.b % N); }
	if (a.kind == A_CHANGE_TO || a.kind == A_PLAN_APPEND) { a.has_payload = 0; memset(a.payload, 0, sizeof(a.payload)); }
	if (a.kind == A_CHANGE_WITH || a.kind == A_PLAN_APPEND_WITH) { const uint32_t s = ++W.cur->payload_seq; a.payload[0] = static_cast<uint8_t>(s); if (g_info->payload_vsize > 1) a.payload[1] = static_cast<uint8_t>(s >> 8); }
	for (int i = g_info->payload_vsize; i < SUT_MAX_PAYLOAD; ++i) a.payload[i] = 0;
	if ((a.kind == A_CHANGE_TO || a.kind == A_CHANGE_WITH) && v->flavour == CF_GUARD && W.c->in_contract) {
		int cap = W.activation ? g_info->limit : g_info->limit - 1;
		if (W.guard_requests >= cap) return false;
	}
	return true;
}

static int sim_hook_body(const SutView* v, SutAction* out);
extern "C" int sim_hook(const SutView* v, SutAction* out) {
	const int saved = g_in_sut; g_in_sut = 0;       // nothing the simulator allocates counts against the SUT
	const int r = sim_hook_body(v, out);
	g_in_sut = saved;
	// the watchdog fired while simulator code was running (possibly inside malloc): leave from here, where it is safe
	if (g_hang_pending) { g_hang_pending = 0; g_hang_armed = 0; siglongjmp(g_hang_jmp, 1); }
	return r;
}
static int sim_hook_body(const SutView* v, SutAction* out) {
	OpExec& x = *W.curx;
	++g_stats.hooks;
	HookEv e;
	e.method = v->method; e.cls = v->cls; e.inj = v->inj; e.flavour = v->flavour; e.step = v->step; e.state_id = v->state_id;
	e.ev_type = v->event_type; e.ev_value = v->event_value; e.ev_addr = v->event_addr;
	e.self = v->self; e.self_hits = v->self_hits; e.ctx_a = v->ctx_a; e.ctx_b = v->ctx_b; e.ctx_tag = v->ctx_tag;
	e.request = v->request; e.pending = v->pending; e.current = v->current; e.previous = v->previous;
	e.has_pending = v->has_pending; e.has_current = v->has_current; e.has_previous = v->has_previous;
	memcpy(e.active, v->active, 32); e.active_tmpl_ok = v->active_tmpl_ok;
	e.machine_active = sut_active_id(W.cur->inst);
	e.machine_is_active = sut_is_active(W.cur->inst);
	e.active_invalid = v->active_invalid; e.machine_active_invalid = static_cast<uint8_t>(sut_is_active_id(W.cur->inst, SUT_INVALID));
	plan_from_sut(e.plan, v->plan); e.plan_m_same = v->plan_m_same;
	e.last_kind = v->last_kind; e.last_result = v->last_result;
	if (v->walk_count) e.walk.assign(v->walk, v->walk + (v->walk_count > SUT_MAX_TASKS ? SUT_MAX_TASKS : v->walk_count));
	memset(&e.action, 0, sizeof(e.action));

	if (x.hooks.size() >= W.hook_budget) { x.budget_exceeded = true; W.passive = true; W.pending.clear(); }

	if (v->step == 0 && !W.passive) {
		W.pending.clear();
		if (W.cur->role == ROLE_REPLICA && x.kind == OPX_REPLAY_MSG) {
			// replicas are arbitrarily hostile: their guards must never be consulted
			if (v->flavour == CF_GUARD) {
				SutAction a; memset(&a, 0, sizeof(a)); a.kind = A_CANCEL; W.pending.push_back(a);
				a.kind = A_CHANGE_TO; a.a = static_cast<uint8_t>((v->cls + 1) % g_info->n_states); W.pending.push_back(a);
			}
		} else if (W.curop) {
			const std::vector<Reaction>& rs = W.curop->reactions;
			for (size_t r = 0; r < rs.size(); ++r) {
				const Reaction& re = rs[r];
				if (re.method != v->method) continue;
				if (re.inj != 255 && re.inj != v->inj) continue;
				bool who = false;
				switch (re.who) {
				case W_ANY: who = true; break;
				case W_ROOT: who = v->cls == SUT_INVALID; break;
				case W_ACTIVE: who = W.open_at_start >= 0 && v->cls == W.open_at_start; break;
				default: who = v->cls == re.state % g_info->n_states; break;
				}
				if (!who) continue;
				int cnt = W.match_counts[r]++;
				if (re.nth != 255 && cnt != re.nth) continue;
				for (size_t k = 0; k < re.acts.size(); ++k) W.pending.push_back(re.acts[k]);
			}
		}
	}
	int ret = 0;
	while (!W.pending.empty()) {
		SutAction a = W.pending.front(); W.pending.pop_front();
		if (!normalise_action(a, v)) continue;
		if ((a.kind == A_CHANGE_TO || a.kind == A_CHANGE_WITH) && v->flavour == CF_GUARD) ++W.guard_requests;
		if (a.kind == A_LOGGER_ATTACH || a.kind == A_LOGGER_DETACH) {
			// the user code of this callback re-attaches / detaches the logger on the machine it belongs to, mid-call;
			// under a logger-schedule override the step is kept (same callback numbering) but not performed
			if (W.cur->role == ROLE_REPLICA) continue;
			if (W.mode.logger_mode == 0) sut_attach_logger(W.cur->inst, a.kind == A_LOGGER_ATTACH ? 1 : 0);
		}
		e.action = a; *out = a; ret = 1; ++g_stats.actions;
		break;
	}
	x.hooks.push_back(e);
	return ret;
}

extern "C" void sim_log(int kind, int origin, int arg, const void* ctx_addr) {
	const int saved = g_in_sut; g_in_sut = 0;
	OpExec& x = *W.curx;
	LogEv l; l.kind = static_cast<uint8_t>(kind); l.origin = static_cast<uint8_t>(origin); l.arg = static_cast<uint8_t>(arg);
	l.ctx_ok = ctx_addr == sut_context_addr(W.cur->inst) ? 1 : 0;
	l.pos = static_cast<uint32_t>(x.hooks.size());
	x.logs.push_back(l);
	g_in_sut = saved;
}

// succeed()/fail() are only issued where a plan outcome can be observed: through the root head's callbacks, or -- in a
// verbose build whose logger stays attached for the whole execution -- through the verbose method records
static bool reports_allowed() {
	if (g_info->defines[SUT_INVALID][M_PLAN_SUCCEEDED] && g_info->defines[SUT_INVALID][M_PLAN_FAILED]) return true;
	return g_info->f_verbose && W.c->vlog && W.c->logger0 && W.mode.logger_mode == 0 && W.cur && W.cur->role != ROLE_REPLICA;
}

//---------------------------------------------------------------------------------------------
// executor

static void begin_ctx(Node& n, int idx, OpExec& x, const Op* op, bool activation) {
	W.cur = &n; W.cur_index = idx; W.curx = &x; W.curop = op; W.activation = activation; W.passive = false;
	W.match_counts.assign(op ? op->reactions.size() : 0, 0);
	W.open_at_start = n.T.open; W.pending.clear(); W.guard_requests = 0;
	W.hook_budget = 400 + 40u * g_info->limit * 8u;
}

static bool logger_wanted_at_construct() {
	if (!g_info->f_log) return false;
	if (W.mode.logger_mode == 1) return false;
	if (W.mode.logger_mode == 2) return true;
	return W.c->logger0 != 0;
}

static void finish_op(Node& n, int idx, OpExec& x) {
	observe(n, x.after);
	n.last_obs = obs_hash(x.after); n.last_obs_set = x.after.valid;
	check_op(n, idx, x, W.rr->violations);
	for (size_t i = 0; i < W.rr->violations.size(); ++i) if (W.rr->violations[i].op_index == -2) W.rr->violations[i].op_index = x.op_index;
	++g_stats.ops;
	uint64_t hf = hash_op(x, false), hn = hash_op(x, true);
	n.digest_full = n.digest_full * 0x100000001b3ULL ^ hf;
	n.digest_neutral = n.digest_neutral * 0x100000001b3ULL ^ hn;
	W.op_hashes.push_back(hf);
	if (idx == 0) { W.rr->op_digest_full.push_back(hf); W.rr->op_digest_neutral.push_back(hn); }
	if (x.after.valid) { const uint64_t as = abstract_state(n, x.after); W.rr->abstract_state_hash = W.rr->abstract_state_hash * 1099511628211ULL ^ as; if (g_abstract_states.size() < 2000000) g_abstract_states.insert(as); }
}

static void init_x(OpExec& x, int kind, const Op* op, int op_index) {
	x.kind = kind; x.op_index = op_index;
	if (op) { x.a = op->a; x.b = op->b; x.c = op->c; x.has_payload = op->has_payload; memcpy(x.payload, op->payload, SUT_MAX_PAYLOAD); memcpy(x.mask, op->mask, 32); }
	for (int i = g_info->payload_vsize; i < SUT_MAX_PAYLOAD; ++i) x.payload[i] = 0;
}

static void hang_abort(Node& n, int idx, OpExec& x) {
	Violation v; v.prop = "C04"; v.clause = "call-returns"; v.op_index = x.op_index; v.node = idx;
	v.msg = std::string("the call (") + (x.kind < OP_COUNT ? OP_NAMES[x.kind] : "construction/destruction") + ") did not return within its CPU-time budget after " + std::to_string(x.hooks.size()) + " callbacks";
	W.rr->violations.push_back(v);
	Violation u = v; u.prop = "C18"; u.clause = "no-undefined-behaviour"; W.rr->violations.push_back(u);
	n.alive = false; n.T.prev_known = false; W.rr->aborted = true;
	arm_run_timer(5);
	g_stats.hit("calls_abandoned_by_watchdog");
}

// constructs a fresh instance for node `idx`; `op` supplies the reactions used by the activation
static void do_construct(int idx, const Op* op, int op_index, int kind) {
	Node& n = W.nodes[idx];
	OpExec x; init_x(x, kind, op, op_index);
	x.before = Obs();
	int s = pick_slot(); if (s < 0) return;
	dirty_slot(s);
	n.slot = s; n.inst = slot_mem(s); n.T = Tracked();
	bool lg = logger_wanted_at_construct() && n.role != ROLE_REPLICA;
	n.T.logger = lg;
	begin_ctx(n, idx, x, (n.role == ROLE_REPLICA) ? 0 : op, true);
	paint_stack(W.fill_kind, W.fill_seed);
	x.executed = true;
	void* volatile p = 0;
	if (sigsetjmp(g_hang_jmp, 1) == 0) {
		g_hang_armed = 1; g_in_sut = 1;
		p = sut_construct(n.inst, n.ctx_slot, n.tag, lg ? 1 : 0);
		g_in_sut = 0; g_hang_armed = 0;
	} else { g_in_sut = 0; hang_abort(n, idx, x); return; }
	n.inst = p; n.alive = true;
	finish_op(n, idx, x);
}

static void run_simple(int idx, int kind, const Op* op, int op_index);

// an instance must show from outside exactly what it showed after the last operation performed on *it*
static void check_untouched(Node& n, int idx, const Obs& now, int op_index) {
	const uint64_t h = obs_hash(now);
	if (n.role != ROLE_ZOMBIE && n.last_obs_set && n.last_obs != h) {
		Violation v; v.prop = "C17"; v.clause = "instances-independent"; v.op_index = op_index; v.node = idx;
		v.msg = "the observable state of an instance changed although no operation was performed on it (operations on a copy or on its original leaked)";
		W.rr->violations.push_back(v);
	}
}

static void drain(int idx, int op_index) {
	Node& n = W.nodes[idx];
	if (n.alive && n.T.active && n.T.slot.has) run_simple(idx, OP_UPDATE, 0, op_index);
}

static void teardown(int idx, int op_index) {
	Node& n = W.nodes[idx];
	if (!n.alive) return;
	if (n.role != ROLE_ZOMBIE) {
		drain(idx, op_index);
		if (g_info->manual && n.T.active) run_simple(idx, OP_EXIT, 0, op_index);
	}
	run_simple(idx, OPX_DESTROY, 0, op_index);
	W.slot_used[n.slot] = false; dirty_slot(n.slot);
}

static void push_msg(int kind, int dest, int expect) { Msg m; m.kind = kind; m.dest = dest; m.expect_active = expect; W.channel.push_back(m); }

static void run_simple(int idx, int kind, const Op* op, int op_index) {
	Node& n = W.nodes[idx];
	if (!n.alive) return;
	OpExec x; init_x(x, kind, op, op_index);
	const unsigned N = g_info->n_states;
	Tracked& T = n.T;
	std::vector<uint8_t> mem;   // serialization scratch; allocated and released outside the SUT window
	observe(n, x.before);
	check_untouched(n, idx, x.before, op_index);
	bool activation = kind == OP_ENTER;
	begin_ctx(n, idx, x, op, activation);
	bool ok = false;
	const bool plans = g_info->f_plans, payload = g_info->payload_kind != P_VOID;
	if (kind == OP_CHANGE_WITH && !payload) { x.kind = kind = OP_CHANGE_TO; x.has_payload = false; }
	if (kind == OP_IMM_CHANGE_WITH && !payload) { x.kind = kind = OP_IMM_CHANGE_TO; x.has_payload = false; }
	if (kind == OP_PLAN_APPEND_WITH && !payload) { x.kind = kind = OP_PLAN_APPEND; x.has_payload = false; }
	switch (kind) {
	case OP_UPDATE: case OP_REACT: case OP_QUERY:
	case OP_CHANGE_TO: case OP_CHANGE_WITH: case OP_IMM_CHANGE_TO: case OP_IMM_CHANGE_WITH:
		ok = T.active; break;
	case OP_PLAN_APPEND: case OP_PLAN_APPEND_WITH: case OP_PLAN_REMOVE_NTH: case OP_PLAN_CLEAR: case OP_PLAN_WALK:
		// a plan may also be prepared on a manually activated machine before enter() (it is kept until exit())
		ok = plans && (T.active ? reports_allowed() : g_info->manual != 0); break;
	case OP_SUCCEED: case OP_FAIL:
		ok = plans && T.active && reports_allowed(); break;
	case OP_PLAN_FILL: ok = plans && (T.active || g_info->manual) && T.mirror.empty(); break;
	case OP_SAVE: ok = g_info->f_serial && (g_info->manual || T.active) && W.snaps.size() < MAX_SNAPS && idx == 0; break;
	case OP_LOAD: ok = g_info->f_serial && !W.snaps.empty() && (g_info->manual || T.active) && !W.c->replicas; break;
	case OP_ENTER: ok = g_info->manual && !T.active; break;
	case OP_EXIT: ok = g_info->manual && T.active; break;
	case OP_REPLAY_TRANSITION: ok = g_info->f_history && T.active && !W.c->replicas; break;
	case OPX_REPLAY_MSG: ok = g_info->f_history; break;
	case OP_LOGGER_ATTACH: case OP_LOGGER_DETACH: ok = g_info->f_log && W.mode.logger_mode == 0 && !W.c->vlog; break;
	case OPX_DESTROY: ok = true; break;
	default: ok = false; break;
	}
	if (!ok) return;
	if (kind == OP_EXIT && T.slot.has) { drain(idx, op_index); observe(n, x.before); begin_ctx(n, idx, x, op, false); }
	x.executed = true;
	if (kind == OP_CHANGE_WITH || kind == OP_IMM_CHANGE_WITH || kind == OP_PLAN_APPEND_WITH) { const uint32_t s = ++W.cur->payload_seq; x.payload[0] = static_cast<uint8_t>(s); if (g_info->payload_vsize > 1) x.payload[1] = static_cast<uint8_t>(s >> 8); }
	if (kind == OP_CHANGE_TO || kind == OP_CHANGE_WITH || kind == OP_IMM_CHANGE_TO || kind == OP_IMM_CHANGE_WITH || kind == OP_PLAN_APPEND || kind == OP_PLAN_APPEND_WITH || kind == OP_PLAN_FILL || kind == OP_SUCCEED || kind == OP_FAIL || (kind == OP_REPLAY_TRANSITION && x.a != SUT_INVALID)) {
		// c bit0 / bit1: argument a / b names the currently active state
		if ((x.c & 1) && T.open >= 0) x.a = T.open;
		if ((x.c & 2) && T.open >= 0) x.b = T.open;
	}
	paint_stack(W.fill_kind, W.fill_seed ^ static_cast<uint64_t>(op_index));
	void* I = n.inst;
	const bool typed = (x.c & 4) && sut_typed_available() && kind != OPX_REPLAY_MSG;
	if (sigsetjmp(g_hang_jmp, 1) != 0) { g_in_sut = 0; hang_abort(n, idx, x); return; }
	g_hang_armed = 1;
	g_in_sut = 1;
	switch (kind) {
	case OP_UPDATE: sut_update(I); break;
	case OP_REACT: x.a = x.a % 3; sut_react(I, x.a, static_cast<uint64_t>(x.b)); break;
	case OP_QUERY: x.a = x.a % 3; sut_query(I, x.a, static_cast<uint64_t>(x.b)); break;
	// c bit2: the typed (template) form of the same call
	case OP_CHANGE_TO: x.a = static_cast<int>(static_cast<unsigned>(x.a) % N); if (typed) sut_change_to_typed(I, x.a, 0, 0); else sut_change_to(I, x.a); break;
	case OP_CHANGE_WITH: x.a = static_cast<int>(static_cast<unsigned>(x.a) % N); if (typed) sut_change_to_typed(I, x.a, 0, x.payload); else sut_change_with(I, x.a, x.payload); break;
	case OP_IMM_CHANGE_TO: x.a = static_cast<int>(static_cast<unsigned>(x.a) % N); if (typed) sut_change_to_typed(I, x.a, 1, 0); else sut_immediate_change_to(I, x.a); break;
	case OP_IMM_CHANGE_WITH: x.a = static_cast<int>(static_cast<unsigned>(x.a) % N); if (typed) sut_change_to_typed(I, x.a, 1, x.payload); else sut_immediate_change_with(I, x.a, x.payload); break;
	case OP_PLAN_APPEND: x.a = static_cast<int>(static_cast<unsigned>(x.a) % N); x.b = static_cast<int>(static_cast<unsigned>(x.b) % N); x.result = typed ? sut_plan_append_typed(I, x.a, x.b, 0) : sut_plan_append(I, x.a, x.b); break;
	case OP_PLAN_APPEND_WITH: x.a = static_cast<int>(static_cast<unsigned>(x.a) % N); x.b = static_cast<int>(static_cast<unsigned>(x.b) % N); x.result = typed ? sut_plan_append_typed(I, x.a, x.b, x.payload) : sut_plan_append_with(I, x.a, x.b, x.payload); break;
	case OP_PLAN_REMOVE_NTH: x.result = sut_plan_remove_nth(I, x.a); break;
	case OP_PLAN_CLEAR: x.result = sut_plan_clear(I); break;
	case OP_PLAN_WALK: { static SutTask buf[SUT_MAX_TASKS + 1]; int cnt = 0; sut_plan_walk(I, x.mask, buf, &cnt); g_in_sut = 0; x.walk.assign(buf, buf + cnt); g_in_sut = 1; break; }
	case OP_PLAN_FILL: {
		x.a = static_cast<int>(static_cast<unsigned>(x.a) % N); x.b = static_cast<int>(static_cast<unsigned>(x.b) % N);
		for (unsigned i = 0; i <= g_info->capacity; ++i) {
			int r;
			SutTask ft; memset(&ft, 0, sizeof(ft)); ft.origin = static_cast<uint8_t>(x.a); ft.dest = static_cast<uint8_t>((static_cast<unsigned>(x.b) + i) % N);
			if (payload && (i & 1)) {
				ft.has_payload = 1; const uint32_t s = ++W.cur->payload_seq;
				for (int b = 0; b < g_info->payload_vsize; ++b) ft.payload[b] = b == 0 ? static_cast<uint8_t>(s) : b == 1 ? static_cast<uint8_t>(s >> 8) : b == 7 ? 0x31 : 0xF1;
				r = sut_plan_append_with(I, ft.origin, ft.dest, ft.payload);
			} else r = sut_plan_append(I, ft.origin, ft.dest);
			g_in_sut = 0; x.results.push_back(r); x.filled.push_back(ft); g_in_sut = 1;
		}
		break; }
	case OP_SUCCEED: x.a = static_cast<int>(static_cast<unsigned>(x.a) % N); if (typed) sut_report_typed(I, x.a, 1); else sut_succeed(I, x.a); break;
	case OP_FAIL: x.a = static_cast<int>(static_cast<unsigned>(x.a) % N); if (typed) sut_report_typed(I, x.a, 0); else sut_fail(I, x.a); break;
	case OP_SAVE: {
		g_in_sut = 0;
		// twice, framed by all-zero and by all-one canaries: an OR-ing or an AND-ing stray write shows in one of them
		std::vector<uint8_t> first;
		for (int pass = 0; pass < 2; ++pass) {
			const uint8_t can = pass ? 0xFF : 0x00;
			mem.assign(g_info->serial_obj_size + 64, can);
			uint8_t pat = static_cast<uint8_t>(0x5b + 29 * op_index + 7 * pass) | 1;
			g_in_sut = 1;
			sut_serial_init(&mem[32], pat);          // a re-used, dirty buffer: save() must fully determine it
			sut_save(I, &mem[32]);
			g_in_sut = 0;
			x.saved_bytes.resize(g_info->serial_bytes); sut_serial_bytes(&mem[32], &x.saved_bytes[0]);
			for (size_t i = 0; i < 32; ++i) if (mem[i] != can) x.canary_ok = false;
			for (size_t i = 32 + g_info->serial_obj_size; i < mem.size(); ++i) if (mem[i] != can) x.canary_ok = false;
			if (pass == 0) first = x.saved_bytes; else if (first != x.saved_bytes) x.save_differs = true;
		}
		W.snaps.push_back(Snapshot());
		Snapshot& sn = W.snaps.back(); sn.bytes = x.saved_bytes; sn.active = T.active; sn.state = T.open;
		sn.objmem.assign(mem.begin() + 32, mem.begin() + 32 + g_info->serial_obj_size);
		// the buffers' own == and != against every earlier snapshot must agree with the bytes
		for (size_t k = 0; k + 1 < W.snaps.size(); ++k) {
			const int r = sut_serial_compare(&W.snaps[k].objmem[0], &sn.objmem[0]);
			const bool same = W.snaps[k].bytes == sn.bytes;
			if (r != (same ? 1 : 2)) x.compare_bad = true;
		}
		x.snapshot_index = static_cast<int>(W.snaps.size()) - 1;
		break; }
	case OP_LOAD: {
		g_in_sut = 0;
		const Snapshot& sn = W.snaps[static_cast<size_t>(x.a) % W.snaps.size()];
		x.snapshot_index = static_cast<int>(static_cast<size_t>(x.a) % W.snaps.size());
		x.saved_active = sn.active; x.saved_state = sn.state; x.loaded_bytes = sn.bytes;
		// framed deterministically, so that even an out-of-bounds read by a broken load() replays exactly
		mem.assign(sn.objmem.size() + 64, 0);
		memcpy(&mem[32], &sn.objmem[0], sn.objmem.size());
		g_in_sut = 1;
		sut_load(I, &mem[32]);
		g_in_sut = 0;
		break; }
	case OP_ENTER: sut_enter(I); break;
	case OP_EXIT: sut_exit(I); break;
	case OP_REPLAY_TRANSITION: if (x.a != SUT_INVALID) x.a = static_cast<int>(static_cast<unsigned>(x.a) % N); x.result = sut_replay_transition(I, x.a); break;
	case OPX_REPLAY_MSG:
		if (x.c == 0) x.result = sut_replay_transition(I, x.a);
		else if (x.c == 1) x.result = sut_replay_enter(I, x.a);
		else x.result = sut_exit(I);
		break;
	case OP_LOGGER_ATTACH: sut_attach_logger(I, 1); break;
	case OP_LOGGER_DETACH: sut_attach_logger(I, 0); break;
	case OPX_DESTROY: sut_destroy(I); n.alive = false; break;
	default: break;
	}
	g_in_sut = 0;
	g_hang_armed = 0;
	if (kind == OP_UPDATE || kind == OP_REACT) ++g_stats.ticks;
	finish_op(n, idx, x);

	// replication: ship what the authority reports
	if (idx == 0 && W.c->replicas && g_info->f_history && x.after.valid) {
		if (kind == OP_UPDATE || kind == OP_REACT || kind == OP_IMM_CHANGE_TO || kind == OP_IMM_CHANGE_WITH) {
			if (x.after.prev.valid) push_msg(0, x.after.prev.dest, x.after.active_id);
		} else if (kind == OP_ENTER) push_msg(1, x.after.active_id, x.after.active_id);
		else if (kind == OP_EXIT) push_msg(2, SUT_INVALID, SUT_INVALID);
	}
}

static void kill_forks(int op_index) {
	for (size_t i = 1; i < W.nodes.size(); ++i) if (W.nodes[i].role == ROLE_FORK) teardown(static_cast<int>(i), op_index);
}

static void deliver(int count, int op_index) {
	for (int k = 0; k < count && !W.channel.empty(); ++k) {
		Msg m = W.channel.front(); W.channel.pop_front();
		for (size_t i = 1; i < W.nodes.size(); ++i) {
			Node& r = W.nodes[i];
			if (r.role != ROLE_REPLICA || !r.alive) continue;
			Op op; op.kind = OP_REPLAY_TRANSITION; op.a = m.dest; op.b = (W.c->lossy && m.kind == 0) ? m.dest : m.expect_active; op.c = m.kind;
			run_simple(static_cast<int>(i), OPX_REPLAY_MSG, &op, op_index);
			nontrivial("replica_message_applied");
		}
	}
}

RunResult execute_case(const Case& c, const ExecMode& mode) {
	RunResult rr;
	arm_run_timer(2);
	if (!g_info) g_info = sut_info();
	if (!W.arena) {
		W.slot_size = (g_info->inst_size + 127u) & ~static_cast<size_t>(63);
		if (posix_memalign(reinterpret_cast<void**>(&W.arena), 64, W.slot_size * ARENA_SLOTS)) abort();
	}
	W.nodes.clear(); W.snaps.clear(); W.channel.clear();
	W.c = &c; W.mode = mode; W.rr = &rr; W.run_nontrivial = false; g_logger_mode = mode.logger_mode; g_case_vlog = c.vlog && c.logger0 && g_info->f_verbose;
	W.fill_kind = mode.fill_override >= 0 ? mode.fill_override : c.fill;
	W.fill_seed = c.paint; W.next_slot_hint = static_cast<int>(c.paint % ARENA_SLOTS);
	for (int s = 0; s < ARENA_SLOTS; ++s) { W.slot_used[s] = false; dirty_slot(s); }
	W.nodes.reserve(1 + MAX_FORKS + 2);
	check_static(rr.violations);
	sut_context_counts(&W.ctx_copies0, &W.ctx_moves0);

	{ Node n; n.role = ROLE_AUTH; n.ctx_slot = 0; n.tag = 0x1000 + (c.paint & 0xff) * 2 + (c.paint >> 8 & 1); W.nodes.push_back(n); }
	const Op* op0 = c.ops.empty() ? 0 : &c.ops[0];
	do_construct(0, op0, 0, OP_CONSTRUCT);
	if (W.nodes[0].alive && !g_info->manual && c.replicas && g_info->f_history) {
		Obs o; observe(W.nodes[0], o); if (o.prev.valid) push_msg(0, o.prev.dest, o.active_id);
	}
	for (int r = 0; r < c.replicas && g_info->f_history; ++r) {
		Node n; n.role = ROLE_REPLICA; n.ctx_slot = 1 + r; n.tag = 0x2000 + static_cast<uint64_t>(r) * 2; W.nodes.push_back(n);
		do_construct(static_cast<int>(W.nodes.size()) - 1, 0, 0, OPX_REPLICA_CONSTRUCT);
	}

	for (size_t i = 1; i < c.ops.size(); ++i) {
		const Op& op = c.ops[i]; const int oi = static_cast<int>(i);
		Node& a = W.nodes[0];
		switch (op.kind) {
		case OP_COPY: {
			int forks = 0; for (size_t k = 1; k < W.nodes.size(); ++k) if (W.nodes[k].role == ROLE_FORK && W.nodes[k].alive) ++forks;
			if (!a.alive || forks >= MAX_FORKS || W.nodes.size() >= 1 + MAX_FORKS + 2 + 4) break;
			int s = pick_slot(); if (s < 0) break;
			dirty_slot(s);
			Node f; f.role = ROLE_FORK; f.ctx_slot = a.ctx_slot; f.tag = a.tag; f.slot = s; f.T = a.T; f.payload_seq = a.payload_seq;
			f.digest_full = a.digest_full; f.digest_neutral = a.digest_neutral;
			OpExec x; init_x(x, OP_COPY, &op, oi);
			W.nodes.push_back(f);
			Node& fn = W.nodes.back(); Node& an = W.nodes[0];
			observe(an, x.before);
			begin_ctx(fn, static_cast<int>(W.nodes.size()) - 1, x, 0, false);
			paint_stack(W.fill_kind, W.fill_seed ^ i);
			// b bit0: move-construct instead (the moved-from original stays a valid, active object)
			fn.inst = slot_mem(s);        // hooks running inside a (broken) copy constructor still find their instance
			g_in_sut = 1; fn.inst = (op.b & 1) ? sut_move(slot_mem(s), an.inst) : sut_copy(slot_mem(s), an.inst); g_in_sut = 0;
			if (op.b & 1) g_stats.hit("moves");
			const bool moved = (op.b & 1) != 0;
			fn.alive = true; x.executed = true;
			finish_op(fn, static_cast<int>(W.nodes.size()) - 1, x);
			nontrivial("copies");
			if (moved) {
				// the moved-to instance carries on as the authority; the moved-from object is only destroyed at the end
				Node tmp = W.nodes[0]; W.nodes[0] = W.nodes.back(); W.nodes.back() = tmp;
				W.nodes[0].role = ROLE_AUTH; W.nodes.back().role = ROLE_ZOMBIE; W.nodes.back().T.prev_known = false;
			}
			break; }
		case OP_CRASH_RESTART: {
			if (!g_info->f_serial || W.snaps.empty() || c.replicas || !a.alive) break;
			kill_forks(oi);
			Node& n = W.nodes[0];
			// crash: the instance is lost without running any destructor; only the snapshot store survives
			n.alive = false; W.slot_used[n.slot] = false;
			{ uint64_t seed = c.paint ^ 0xdeadULL ^ i; fill_bytes(slot_mem(n.slot), W.slot_size, 3, seed); }
			do_construct(0, &op, oi, OP_CONSTRUCT);
			Op ld; ld.kind = OP_LOAD; ld.a = op.a;
			run_simple(0, OP_LOAD, &ld, oi);
			nontrivial("crash_restarts");
			break; }
		case OP_CLEAN_RESTART: {
			if (c.replicas || !a.alive) break;
			kill_forks(oi);
			teardown(0, oi);
			do_construct(0, &op, oi, OP_CONSTRUCT);
			g_stats.hit("clean_restarts");
			break; }
		case OP_DELIVER: deliver(op.a, oi); break;
		case OP_CHANNEL_DROP: case OP_CHANNEL_DUP: case OP_CHANNEL_SWAP:
			// network faults touch transition messages only (activation / deactivation travel reliably)
			if (!c.lossy || W.channel.empty() || W.channel.front().kind != 0) break;
			if (op.kind == OP_CHANNEL_DROP) { W.channel.pop_front(); mark_nontrivial("channel_drops"); }
			else if (op.kind == OP_CHANNEL_DUP) { W.channel.push_front(W.channel.front()); mark_nontrivial("channel_duplicates"); }
			else if (W.channel.size() >= 2 && W.channel[1].kind == 0) { Msg t = W.channel[0]; W.channel[0] = W.channel[1]; W.channel[1] = t; mark_nontrivial("channel_reorders"); }
			break;
		case OP_SAVE: run_simple(0, OP_SAVE, &op, oi); break;
		case OP_CONSTRUCT: break;
		default: {
			// lock-step: the original and every fork receive the same operation with the same reactions
			W.op_hashes.clear();
			run_simple(0, op.kind, &op, oi);
			const std::vector<uint64_t> h0 = W.op_hashes;
			for (size_t k = 1; k < W.nodes.size(); ++k) {
				if (W.nodes[k].role != ROLE_FORK || !W.nodes[k].alive) continue;
				W.op_hashes.clear();
				run_simple(static_cast<int>(k), op.kind, &op, oi);
				if (W.op_hashes != h0) {
					Violation v; v.prop = "C17"; v.clause = "fork-lockstep"; v.op_index = oi; v.node = static_cast<int>(k);
					v.msg = std::string("copy responded differently from the original to ") + OP_NAMES[op.kind];
					rr.violations.push_back(v);
				}
				if (!h0.empty()) g_stats.hit("fork_lockstep_ops");
			}
			break; }
		}
		if (rr.violations.size() > 40 || rr.aborted) break;
	}
	// end of history: drain the channel, then tear every instance down properly
	const int endi = static_cast<int>(c.ops.size());
	deliver(1 << 20, endi);
	if (c.lossy && c.replicas && !W.nodes.empty() && W.nodes[0].alive && W.nodes[0].T.active) {
		// faults have stopped: one resync message carrying the authority's current state heals every replica
		bool any = false;
		for (size_t k = 1; k < W.nodes.size(); ++k) if (W.nodes[k].role == ROLE_REPLICA && W.nodes[k].alive && W.nodes[k].T.active) any = true;
		if (any) { push_msg(0, W.nodes[0].T.open, W.nodes[0].T.open); deliver(1, endi); g_stats.hit("channel_resyncs"); }
	}
	for (size_t k = W.nodes.size(); k-- > 0;) teardown(static_cast<int>(k), endi);

	rr.digest_full = W.nodes.empty() ? 0 : W.nodes[0].digest_full;
	rr.digest_neutral = W.nodes.empty() ? 0 : W.nodes[0].digest_neutral;
	for (size_t i = 0; i < rr.op_digest_full.size(); ++i) { rr.digest_full = rr.digest_full * 31 + rr.op_digest_full[i]; rr.digest_neutral = rr.digest_neutral * 31 + rr.op_digest_neutral[i]; }
	rr.nontrivial = W.run_nontrivial;
	if (g_allocs_in_sut) {
		Violation v; v.prop = "C18"; v.clause = "no-allocation"; v.op_index = -1;
		v.msg = "heap allocation or free while an FFSM2 call was on the stack";
		rr.violations.push_back(v); g_allocs_in_sut = 0;
	}
	W.rr = 0;
	return rr;
}

void mark_nontrivial(const char* probe) { nontrivial(probe); }

//---------------------------------------------------------------------------------------------
// differential evaluation

static void diff_ops(const RunResult& a, const RunResult& b, bool neutral, const char* prop, const char* clause, const char* what, std::vector<Violation>& out) {
	const std::vector<uint64_t>& x = neutral ? a.op_digest_neutral : a.op_digest_full;
	const std::vector<uint64_t>& y = neutral ? b.op_digest_neutral : b.op_digest_full;
	size_t n = x.size() < y.size() ? x.size() : y.size();
	for (size_t i = 0; i < n; ++i) if (x[i] != y[i]) {
		Violation v; v.prop = prop; v.clause = clause; v.op_index = static_cast<int>(i); v.msg = std::string(what) + " (first differing executed step #" + std::to_string(i) + ")";
		out.push_back(v); return;
	}
	if (x.size() != y.size()) { Violation v; v.prop = prop; v.clause = clause; v.op_index = static_cast<int>(n); v.msg = std::string(what) + " (different number of executed steps)"; out.push_back(v); }
}

EvalResult evaluate_case(const Case& c) {
	EvalResult er;
	ExecMode base;
	RunResult r0 = execute_case(c, base);
	er.violations = r0.violations; er.digest_full = r0.digest_full; er.digest_neutral = r0.digest_neutral; er.nontrivial = r0.nontrivial;
	++g_stats.runs;
	if (r0.aborted) return er;      // a call was abandoned by the watchdog: the differential executions would only hang again
	// 1. the same case in memory with different prior contents
	ExecMode m1; m1.fill_override = (c.fill + 1 + static_cast<int>(c.paint % 3)) % 4;
	RunResult r1 = execute_case(c, m1);
	diff_ops(r0, r1, false, "C17", "fill-independence", "behaviour depends on the prior contents of the memory the machine was constructed in", er.violations);
	g_stats.hit("fill_differential_pairs");
	// 2. the same case under another logger schedule
	if (g_info->f_log && !c.vlog) {
		bool any_logger = c.logger0 != 0;
		for (size_t i = 0; i < c.ops.size(); ++i) if (c.ops[i].kind == OP_LOGGER_ATTACH) any_logger = true;
		ExecMode m2; m2.logger_mode = any_logger ? 1 : 2;
		RunResult r2 = execute_case(c, m2);
		// LOGGER_* ops are skipped under an override, so compare the neutral digests of the ops both executed:
		// drop them from the base list first
		RunResult r0f = r0; r0f.op_digest_neutral.clear();
		// executed-op list is not recorded by kind here; logger ops hash to a constant marker in neutral mode (see hash_op)
		for (size_t i = 0; i < r0.op_digest_neutral.size(); ++i) if (r0.op_digest_neutral[i] != 0x10661066ULL) r0f.op_digest_neutral.push_back(r0.op_digest_neutral[i]);
		diff_ops(r0f, r2, true, "C16", "logger-independence", "attaching/detaching/omitting the logger changed callbacks, their order or a resulting state", er.violations);
		for (size_t i = 0; i < r2.violations.size(); ++i) er.violations.push_back(r2.violations[i]);
		g_stats.hit("logger_differential_pairs");
	}
	for (size_t i = 0; i < r1.violations.size(); ++i) {
		// a violation that only shows under the alternative fill is still a violation of the same clause
		bool dup = false;
		for (size_t k = 0; k < er.violations.size(); ++k) if (er.violations[k].prop == r1.violations[i].prop && er.violations[k].clause == r1.violations[i].clause) dup = true;
		if (!dup) er.violations.push_back(r1.violations[i]);
	}
	return er;
}
