// sut.cpp — the ONLY translation unit that includes FFSM2. Built once per variant with
// -include <variant header> which fixes configuration, feature switches and the state list.
// It contains no standard container, takes no decision, and calls nothing but sim_hook()/sim_log().
// Every user callback: build a POD view of what its control shows -> sim_hook -> perform the
// returned action against its own control flavour -> repeat until sim_hook returns 0.

#ifndef SUT_N
#error "build with -include variant_<id>.hpp"
#endif

#if SUT_HEADER_DEV
#include <ffsm2/machine_dev.hpp>
#else
#include <ffsm2/machine.hpp>
#endif

#include <string.h>
#include "sut_api.h"

// The library's own FFSM2_*_AVAILABLE() macros are #undef'ed at the end of the header.
#if defined(FFSM2_ENABLE_PLANS) || defined(FFSM2_ENABLE_ALL)
#define SF_PLANS 1
#else
#define SF_PLANS 0
#endif
#if defined(FFSM2_ENABLE_SERIALIZATION) || defined(FFSM2_ENABLE_ALL)
#define SF_SERIAL 1
#else
#define SF_SERIAL 0
#endif
#if defined(FFSM2_ENABLE_TRANSITION_HISTORY) || defined(FFSM2_ENABLE_ALL)
#define SF_HISTORY 1
#else
#define SF_HISTORY 0
#endif
#if defined(FFSM2_ENABLE_LOG_INTERFACE) || defined(FFSM2_ENABLE_VERBOSE_DEBUG_LOG)
#define SF_LOG 1
#else
#define SF_LOG 0
#endif
#if defined(FFSM2_ENABLE_VERBOSE_DEBUG_LOG)
#define SF_VERBOSE 1
#else
#define SF_VERBOSE 0
#endif
#if defined(FFSM2_ENABLE_STRUCTURE_REPORT) || defined(FFSM2_ENABLE_ALL)
#define SF_STRUCTURE 1
#else
#define SF_STRUCTURE 0
#endif
#if defined(FFSM2_ENABLE_DEBUG_STATE_TYPE) || defined(FFSM2_ENABLE_ALL)
#define SF_DEBUGTYPE 1
#else
#define SF_DEBUGTYPE 0
#endif
#if defined(FFSM2_DISABLE_TYPEINDEX)
#define SF_NOTYPEINDEX 1
#else
#define SF_NOTYPEINDEX 0
#endif

static_assert(static_cast<int>(ffsm2::Method::ENTRY_GUARD)    == M_ENTRY_GUARD,    "method numbering");
static_assert(static_cast<int>(ffsm2::Method::QUERY)          == M_QUERY,          "method numbering");
static_assert(static_cast<int>(ffsm2::Method::EXIT)           == M_EXIT,           "method numbering");
static_assert(static_cast<int>(ffsm2::Method::PLAN_FAILED)    == M_PLAN_FAILED,    "method numbering");
static_assert(ffsm2::INVALID_STATE_ID == SUT_INVALID, "invalid id");

namespace sut {

//------------------------------------------------------------------------------------------------
// payload kinds: conversion between the library-side type and canonical value bytes

struct PlC3  { char c[3]; };
struct PlB24 { uint64_t a, b, c; };
struct alignas(16) PlA16 { uint64_t a; uint32_t b; };
struct alignas(32) PlA32 { uint64_t a[2]; };

template <int K> struct PL;
template <> struct PL<P_VOID> { typedef void type; enum { VSIZE = 0 }; };
struct NoPayload {};
// a bare uint8_t payload does not compile at all: Transition{origin, destination} becomes ambiguous with
// Transition{destination, payload} because StateID is uint8_t too -- so the 1-byte payload is a struct
struct PlU8 { uint8_t v; };
template <> struct PL<P_U8>  { typedef PlU8 type; enum { VSIZE = 1 };
	static type unpack(const uint8_t* b) { type p; p.v = b[0]; return p; }
	static void pack(const type& p, uint8_t* b) { b[0] = p.v; } };
template <> struct PL<P_I32> { typedef int32_t type; enum { VSIZE = 4 };
	static type unpack(const uint8_t* b) { type p; memcpy(&p, b, 4); return p; }
	static void pack(const type& p, uint8_t* b) { memcpy(b, &p, 4); } };
template <> struct PL<P_F64> { typedef double type; enum { VSIZE = 8 };
	static type unpack(const uint8_t* b) { type p; memcpy(&p, b, 8); return p; }
	static void pack(const type& p, uint8_t* b) { memcpy(b, &p, 8); } };
template <> struct PL<P_C3>  { typedef PlC3 type; enum { VSIZE = 3 };
	static type unpack(const uint8_t* b) { type p; memcpy(p.c, b, 3); return p; }
	static void pack(const type& p, uint8_t* b) { memcpy(b, p.c, 3); } };
template <> struct PL<P_B24> { typedef PlB24 type; enum { VSIZE = 24 };
	static type unpack(const uint8_t* b) { type p; memcpy(&p.a, b, 8); memcpy(&p.b, b + 8, 8); memcpy(&p.c, b + 16, 8); return p; }
	static void pack(const type& p, uint8_t* b) { memcpy(b, &p.a, 8); memcpy(b + 8, &p.b, 8); memcpy(b + 16, &p.c, 8); } };
template <> struct PL<P_A16> { typedef PlA16 type; enum { VSIZE = 12 };
	static type unpack(const uint8_t* b) { type p; memcpy(&p.a, b, 8); memcpy(&p.b, b + 8, 4); return p; }
	static void pack(const type& p, uint8_t* b) { memcpy(b, &p.a, 8); memcpy(b + 8, &p.b, 4); } };
template <> struct PL<P_A32> { typedef PlA32 type; enum { VSIZE = 16 };
	static type unpack(const uint8_t* b) { type p; memcpy(&p.a[0], b, 8); memcpy(&p.a[1], b + 8, 8); return p; }
	static void pack(const type& p, uint8_t* b) { memcpy(b, &p.a[0], 8); memcpy(b + 8, &p.a[1], 8); } };

// a payload larger than 255 bytes: the canonical value is 32 bytes, expanded over 300; a byte that does not arrive
// shows as a complemented value
struct PlG300 { uint8_t b[300]; };
template <> struct PL<P_G300> { typedef PlG300 type; enum { VSIZE = 32 };
	static uint8_t at(const uint8_t* v, unsigned i) { return static_cast<uint8_t>(v[i % 32] + 37u * (i / 32)); }
	static type unpack(const uint8_t* b) { type p; for (unsigned i = 0; i < 300; ++i) p.b[i] = at(b, i); return p; }
	static void pack(const type& p, uint8_t* b) {
		bool ok = true;
		for (unsigned i = 32; i < 300; ++i) if (p.b[i] != at(p.b, i)) ok = false;
		for (unsigned i = 0; i < 32; ++i) b[i] = ok ? p.b[i] : static_cast<uint8_t>(~p.b[i]);
	} };

typedef PL<SUT_PAYLOAD_KIND> PLK;
typedef PLK::type Payload;
#define SUT_HAS_PAYLOAD (SUT_PAYLOAD_KIND != 0)

//------------------------------------------------------------------------------------------------
// contexts

// the user's context type tells copies from moves (a machine that is moved must move its value context)
uint32_t g_ctx_copies = 0, g_ctx_moves = 0;
struct Ctx {
	uint64_t tag; uint64_t touched;
	Ctx() : tag(0), touched(0) {}
	Ctx(const Ctx& o) : tag(o.tag), touched(o.touched) { ++g_ctx_copies; }
	Ctx(Ctx&& o) noexcept : tag(o.tag), touched(o.touched) { ++g_ctx_moves; }
	Ctx& operator = (const Ctx& o) { tag = o.tag; touched = o.touched; return *this; }
};

#if   SUT_CTX_KIND == 0
typedef ffsm2::EmptyContext CtxT;
#elif SUT_CTX_KIND == 1
typedef Ctx  CtxT;
#elif SUT_CTX_KIND == 2
typedef Ctx& CtxT;
#else
typedef Ctx* CtxT;
#endif

inline const void* ctx_addr(const ffsm2::EmptyContext& e) { return &e; }
inline const void* ctx_addr(const Ctx& c)                 { return &c; }
inline const void* ctx_addr(Ctx* const& p)                { return p;  }
inline const void* ctx_addr(const Ctx* const& p)          { return p;  }
inline uint64_t    ctx_tag (const ffsm2::EmptyContext&)   { return 0;  }
inline uint64_t    ctx_tag (const Ctx& c)                 { return c.tag; }
inline uint64_t    ctx_tag (Ctx* const& p)                { return p ? p->tag : 0; }
inline uint64_t    ctx_tag (const Ctx* const& p)          { return p ? p->tag : 0; }

Ctx g_ctx_slots[16];

//------------------------------------------------------------------------------------------------
// configuration

typedef ffsm2::Config
	::ContextT<CtxT>
	::SubstitutionLimitN<SUT_L>
#if SF_PLANS && (SUT_C > 0)
	::TaskCapacityN<SUT_C>
#endif
	::PayloadT<Payload>
#if SUT_MANUAL
	::ManualActivation
#endif
	Config;

typedef ffsm2::MachineT<Config> M;

template <unsigned I> struct St;
struct R;

#if SUT_ROOT_KIND == 6
typedef M::PeerRoot<SUT_STATE_LIST> FSM;
#else
typedef M::Root<R, SUT_STATE_LIST> FSM;
#endif

typedef FSM::Instance Inst;

struct Ev0 { uint64_t v; };
struct Ev1 { uint64_t v; char pad[8]; };
struct Ev2 { uint32_t v; };
template <typename E> struct EvId;
template <> struct EvId<Ev0> { enum { ID = 0 }; };
template <> struct EvId<Ev1> { enum { ID = 1 }; };
template <> struct EvId<Ev2> { enum { ID = 2 }; };

//------------------------------------------------------------------------------------------------
// reading transitions / plans

template <typename TT> struct TransReader;
#if SUT_HAS_PAYLOAD
template <typename TT>
struct TransReader {
	static void read(SutTrans& out, const TT& t) {
		memset(&out, 0, sizeof(out));
		out.valid  = static_cast<bool>(t) ? 1 : 0;
		out.origin = t.origin;
		out.dest   = t.destination;
		if (const Payload* const p = t.payload()) {
			out.has_payload = 1;
			PLK::pack(*p, out.payload);
		}
	}
};
#endif
template <>
struct TransReader<ffsm2::detail::TransitionT<void> > {
	static void read(SutTrans& out, const ffsm2::detail::TransitionT<void>& t) {
		memset(&out, 0, sizeof(out));
		out.valid  = static_cast<bool>(t) ? 1 : 0;
		out.origin = t.origin;
		out.dest   = t.destination;
	}
};
template <typename TT> inline void read_trans(SutTrans& out, const TT& t) { TransReader<TT>::read(out, t); }

#if SF_PLANS
template <typename TTask> struct TaskReader;
#if SUT_HAS_PAYLOAD
template <typename TTask>
struct TaskReader {
	static void read(SutTask& out, const TTask& t) {
		memset(&out, 0, sizeof(out));
		out.origin = t.origin;
		out.dest   = t.destination;
		if (const Payload* const p = t.payload()) {
			out.has_payload = 1;
			PLK::pack(*p, out.payload);
		}
	}
};
#endif
template <>
struct TaskReader<ffsm2::detail::TaskT<void> > {
	static void read(SutTask& out, const ffsm2::detail::TaskT<void>& t) {
		memset(&out, 0, sizeof(out));
		out.origin = t.origin;
		out.dest   = t.destination;
	}
};
template <typename TTask> inline void read_task(SutTask& out, const TTask& t) { TaskReader<TTask>::read(out, t); }

// P is a Plan, const Plan or CPlan object (non-const lvalue for CPlan: its begin() is non-const)
// HAS_FL: CPlanT defines first()/last(); PlanT only declares them (never defined -> link error if used)
template <bool HAS_FL> struct FirstLast {
	template <typename P> static void read(SutPlan& out, const P& cp) {
		out.first_o = cp.first().origin; out.first_d = cp.first().destination;
		out.last_o  = cp.last ().origin; out.last_d  = cp.last ().destination;
	}
};
template <> struct FirstLast<false> {
	template <typename P> static void read(SutPlan& out, const P&) {
		if (out.count) {
			out.first_o = out.tasks[0].origin; out.first_d = out.tasks[0].dest;
			const unsigned l = (out.count > SUT_MAX_TASKS ? SUT_MAX_TASKS : out.count) - 1;
			out.last_o = out.tasks[l].origin; out.last_d = out.tasks[l].dest;
		}
	}
};

template <bool HAS_FL, typename P>
void read_plan(SutPlan& out, P& p) {
	out.available = 1;
	out.nonempty  = static_cast<bool>(p) ? 1 : 0;
	out.count     = 0;
	out.first_o = out.first_d = out.last_o = out.last_d = SUT_INVALID;
	for (auto it = p.begin(); it; ++it) {
		if (out.count > SUT_MAX_TASKS) break;          // a cycle in the links: report count 256
		read_task(out.tasks[out.count], *it);
		++out.count;
	}
	if (out.nonempty) FirstLast<HAS_FL>::read(out, p);
}

inline bool same_plan(const SutPlan& a, const SutPlan& b) {
	if (a.nonempty != b.nonempty || a.count != b.count) return false;
	if (a.nonempty && (a.first_o != b.first_o || a.first_d != b.first_d || a.last_o != b.last_o || a.last_d != b.last_d)) return false;
	for (unsigned i = 0; i < a.count && i <= SUT_MAX_TASKS; ++i)
		if (memcmp(&a.tasks[i], &b.tasks[i], sizeof(SutTask)) != 0) return false;
	return true;
}
#endif

//------------------------------------------------------------------------------------------------
// the view

struct Last { uint8_t kind, result; uint16_t walk_count; };

template <bool ON> struct PlanFill { template <typename C> static void fill(SutView&, const C&) {} };
#if SF_PLANS
template <> struct PlanFill<true> {
	template <typename C> static void fill(SutView& v, const C& c) {
		auto p = c.plan();                 // const control -> CPlan
		read_plan<true>(v.plan, p);
	}
};
#endif

SutView g_view;        // single-threaded, re-filled for every sim_hook call
SutPlan g_plan_tmp;

// ConstControlT::plan() cannot be instantiated (CPlanT does not befriend ConstControlT, so the
// private constructor is inaccessible) -- a const control therefore shows no plan.
template <bool READ_PLAN, typename C>
void fill_common(SutView& v, const C& c) {
	v.state_id = c.stateId();
	v.ctx_a    = ctx_addr(c.context());
	v.ctx_b    = ctx_addr(c._());
	v.ctx_tag  = ctx_tag (c.context());
	read_trans(v.request, c.request());
	memset(v.active, 0, sizeof(v.active));
	for (unsigned i = 0; i < SUT_N; ++i)
		if (c.isActive(static_cast<ffsm2::StateID>(i)))
			v.active[i >> 3] = static_cast<uint8_t>(v.active[i >> 3] | (1u << (i & 7)));
	v.active_invalid = c.isActive(ffsm2::INVALID_STATE_ID) ? 1 : 0;
#if SF_HISTORY
	read_trans(v.previous, c.previousTransitions());
	v.has_previous = 1;
#else
	v.has_previous = 0;
#endif
	v.plan.available = 0; v.plan.nonempty = 0; v.plan.count = 0;
	PlanFill<READ_PLAN && SF_PLANS>::fill(v, c);
	v.has_pending = 0;
	v.has_current = 0;
	v.plan_m_same = 1;
}

template <typename C>
void fill_plan_level(SutView& v, C& c) {       // PlanControl and up
	read_trans(v.current, c.currentTransition());
	v.has_current = 1;
#if SF_PLANS
	{
		auto p = c.plan();                 // mutable Plan
		read_plan<false>(g_plan_tmp, p);
		v.plan_m_same = same_plan(g_plan_tmp, v.plan) ? 1 : 0;
		const auto& kp = p;                // the same Plan through a const reference: its own iterator type
		read_plan<false>(g_plan_tmp, kp);
		if (!same_plan(g_plan_tmp, v.plan)) v.plan_m_same = 0;
	}
#endif
}

template <typename C, int F> struct Filler;
template <typename C> struct Filler<C, CF_CONST> { static void fill(SutView& v, C& c) { fill_common<false>(v, c); } };
template <typename C> struct Filler<C, CF_PLAN>  { static void fill(SutView& v, C& c) { fill_common<true>(v, static_cast<const C&>(c)); fill_plan_level(v, c); } };
template <typename C> struct Filler<C, CF_FULL>  { static void fill(SutView& v, C& c) { fill_common<true>(v, static_cast<const C&>(c)); fill_plan_level(v, c); } };
template <typename C> struct Filler<C, CF_GUARD> { static void fill(SutView& v, C& c) {
	fill_common<true>(v, static_cast<const C&>(c)); fill_plan_level(v, c);
	read_trans(v.pending, c.pendingTransition()); v.has_pending = 1; } };

//------------------------------------------------------------------------------------------------
// performing actions, by control flavour

#if SF_PLANS
SutPlan g_plan_view_a, g_plan_view_b;
template <typename C>
void do_plan_action_(C& c, const SutAction& a, Last& last, SutView& v);
template <typename C>
void do_plan_action(C& c, const SutAction& a, Last& last, SutView& v) {
	auto before = static_cast<const C&>(c).plan();          // CPlan: a view, obtained before the edit
	do_plan_action_(c, a, last, v);
	auto after = static_cast<const C&>(c).plan();
	read_plan<true>(g_plan_view_a, before); read_plan<true>(g_plan_view_b, after);
	if (!same_plan(g_plan_view_a, g_plan_view_b)) last.result = static_cast<uint8_t>(last.result | 0x80);   // stale view
}
template <typename C>
void do_plan_action_(C& c, const SutAction& a, Last& last, SutView& v) {
	auto p = c.plan();
	switch (a.kind) {
	case A_PLAN_APPEND:
#if SUT_TYPED
		if (a.mask[30]) { last.result = typed_plan_change(p, a.a, a.b) ? 1 : 0; break; }
#endif
		last.result = p.change(a.a, a.b) ? 1 : 0; break;
	case A_PLAN_APPEND_WITH:
#if SUT_HAS_PAYLOAD
#if SUT_TYPED
		if (a.mask[30]) { last.result = typed_plan_change_with(p, a.a, a.b, PLK::unpack(a.payload)) ? 1 : 0; break; }
#endif
		last.result = p.changeWith(a.a, a.b, PLK::unpack(a.payload)) ? 1 : 0;
#else
		last.result = p.change(a.a, a.b) ? 1 : 0;
#endif
		break;
	case A_PLAN_REMOVE_NTH: {
		unsigned i = 0; last.result = 0;
		for (auto it = p.begin(); it; ++it, ++i)
			if (i == a.a) { it.remove(); last.result = 1; break; }
		break; }
	case A_PLAN_CLEAR:
		p.clear(); last.result = 1; break;
	case A_PLAN_WALK: {
		unsigned i = 0;
		for (auto it = p.begin(); it && i <= SUT_MAX_TASKS; ++it, ++i) {
			read_task(v.walk[i], *it);
			if (a.mask[i >> 3] & (1u << (i & 7))) it.remove();
		}
		last.walk_count = static_cast<uint16_t>(i); last.result = 1;
		break; }
	default: break;
	}
}
#endif

// typed (template) forms of the API, dispatched over the state list; only for small machines (compile time)
#if SUT_N <= 17
#define SUT_TYPED 1
template <typename C> void typed_change_to(C& c, unsigned k) {
	switch (k) {
#define X(i) case i: c.template changeTo<St<i> >(); break;
	SUT_STATES(X)
#undef X
	default: break; }
}
#if SUT_HAS_PAYLOAD
template <typename C> void typed_change_with(C& c, unsigned k, const Payload& p) {
	switch (k) {
#define X(i) case i: c.template changeWith<St<i> >(p); break;
	SUT_STATES(X)
#undef X
	default: break; }
}
#endif
#if SF_PLANS
template <typename C> void typed_report(C& c, unsigned k, bool success) {
	switch (k) {
#define X(i) case i: if (success) c.template succeed<St<i> >(); else c.template fail<St<i> >(); break;
	SUT_STATES(X)
#undef X
	default: break; }
}
template <typename P> bool typed_plan_change(P& p, unsigned o, unsigned d) {
	switch (o) {
#define X(i) case i: return p.template change<St<i> >(static_cast<ffsm2::StateID>(d));
	SUT_STATES(X)
#undef X
	default: return false; }
}
#if SUT_HAS_PAYLOAD
template <typename P> bool typed_plan_change_with(P& p, unsigned o, unsigned d, const Payload& pl) {
	switch (o) {
#define X(i) case i: return p.template changeWith<St<i> >(static_cast<ffsm2::StateID>(d), pl);
	SUT_STATES(X)
#undef X
	default: return false; }
}
#endif
#endif
#else
#define SUT_TYPED 0
#endif

template <typename C, int F> struct Performer;

template <typename C> struct Performer<C, CF_CONST> {
	static void perform(C&, const SutAction&, Last&, SutView&) {}
};
template <typename C> struct Performer<C, CF_PLAN> {
	static void perform(C& c, const SutAction& a, Last& last, SutView& v) {
#if SF_PLANS
		if (a.kind >= A_PLAN_APPEND && a.kind <= A_PLAN_WALK) do_plan_action(c, a, last, v);
#else
		(void) c; (void) a; (void) last; (void) v;
#endif
	}
};
template <typename C>
void do_full_action(C& c, const SutAction& a, Last& last, SutView& v) {
	switch (a.kind) {
	case A_CHANGE_TO:
#if SUT_TYPED
		if (a.mask[30]) { typed_change_to(c, a.a); last.result = 1; break; }
#endif
		c.changeTo(a.a); last.result = 1; break;
	case A_CHANGE_WITH:
#if SUT_HAS_PAYLOAD
#if SUT_TYPED
		if (a.mask[30]) { typed_change_with(c, a.a, PLK::unpack(a.payload)); last.result = 1; break; }
#endif
		// mask[29]: re-target the outstanding request, passing ITS OWN payload object as the argument (aliasing)
		if (a.mask[29] && static_cast<bool>(c.request()) && c.request().payload()) { c.changeWith(a.a, *c.request().payload()); last.result = 1; break; }
		c.changeWith(a.a, PLK::unpack(a.payload));
#else
		c.changeTo(a.a);
#endif
		last.result = 1; break;
#if SF_PLANS
	case A_SUCCEED_SELF: if (c.stateId() != ffsm2::INVALID_STATE_ID) { c.succeed(); last.result = 1; } break;
	case A_FAIL_SELF:    if (c.stateId() != ffsm2::INVALID_STATE_ID) { c.fail();    last.result = 1; } break;
	case A_SUCCEED:
#if SUT_TYPED
		if (a.mask[30]) { typed_report(c, a.a, true); last.result = 1; break; }
#endif
		c.succeed(a.a); last.result = 1; break;
	case A_FAIL:
#if SUT_TYPED
		if (a.mask[30]) { typed_report(c, a.a, false); last.result = 1; break; }
#endif
		c.fail   (a.a); last.result = 1; break;
	case A_PLAN_APPEND: case A_PLAN_APPEND_WITH: case A_PLAN_REMOVE_NTH: case A_PLAN_CLEAR: case A_PLAN_WALK:
		do_plan_action(c, a, last, v); break;
#endif
	default: (void) v; break;
	}
}
template <typename C> struct Performer<C, CF_FULL> {
	static void perform(C& c, const SutAction& a, Last& last, SutView& v) { do_full_action(c, a, last, v); }
};
template <typename C> struct Performer<C, CF_GUARD> {
	static void perform(C& c, const SutAction& a, Last& last, SutView& v) {
		if (a.kind == A_CANCEL) { c.cancelPendingTransition(); last.result = 1; }
		else do_full_action(c, a, last, v);
	}
};

//------------------------------------------------------------------------------------------------
// the hook loop

template <int F, typename C>
void run_hook(C& c, int method, int cls, int inj, const void* self,
			  int ev_type, uint64_t ev_value, const void* ev_addr, int tmpl_ok, uint32_t hits = 0)
{
	Last last; last.kind = A_NONE; last.result = 0; last.walk_count = 0;
	SutAction act;
	for (unsigned step = 0; step < 64; ++step) {
		SutView& v = g_view;
		v.method = static_cast<uint8_t>(method); v.cls = static_cast<uint8_t>(cls);
		v.inj = static_cast<uint8_t>(inj);       v.flavour = F;
		v.event_type = static_cast<uint8_t>(ev_type); v.event_value = ev_value; v.event_addr = ev_addr;
		v.self = self; v.self_hits = hits;
		v.active_tmpl_ok = static_cast<uint8_t>(tmpl_ok);
		Filler<C, F>::fill(v, c);
		v.step = static_cast<uint8_t>(step);
		v.last_kind = last.kind; v.last_result = last.result; v.walk_count = last.walk_count;
		memset(&act, 0, sizeof(act));
		if (!sim_hook(&v, &act)) break;
		last.kind = act.kind; last.result = 0; last.walk_count = 0;
		Performer<C, F>::perform(c, act, last, v);
	}
}

// one set of callbacks, shared by state classes, injections and the root
#define SUT_CALLBACKS(CLS, INJ, TMPL)                                                                                   \
	mutable uint32_t hits_ = 0;   /* user data living in the state object: must be copied with the machine */      \
	void entryGuard(GuardControl& c) noexcept { run_hook<CF_GUARD>(c, M_ENTRY_GUARD, CLS, INJ, this, SUT_INVALID, 0, 0, TMPL(c), ++hits_); }  \
	void enter     (PlanControl&  c) noexcept { run_hook<CF_PLAN >(c, M_ENTER,       CLS, INJ, this, SUT_INVALID, 0, 0, TMPL(c), ++hits_); }  \
	void reenter   (PlanControl&  c) { run_hook<CF_PLAN >(c, M_REENTER,     CLS, INJ, this, SUT_INVALID, 0, 0, TMPL(c), ++hits_); }  \
	void preUpdate (FullControl&  c) { run_hook<CF_FULL >(c, M_PRE_UPDATE,  CLS, INJ, this, SUT_INVALID, 0, 0, TMPL(c), ++hits_); }  \
	void update    (FullControl&  c) noexcept { run_hook<CF_FULL >(c, M_UPDATE,      CLS, INJ, this, SUT_INVALID, 0, 0, TMPL(c), ++hits_); }  \
	void postUpdate(FullControl&  c) noexcept { run_hook<CF_FULL >(c, M_POST_UPDATE, CLS, INJ, this, SUT_INVALID, 0, 0, TMPL(c), ++hits_); }  \
	template <typename E> void preReact (const E& e, FullControl& c) { run_hook<CF_FULL>(c, M_PRE_REACT,  CLS, INJ, this, EvId<E>::ID, e.v, &e, TMPL(c), ++hits_); } \
	template <typename E> void react    (const E& e, FullControl& c) { run_hook<CF_FULL>(c, M_REACT,      CLS, INJ, this, EvId<E>::ID, e.v, &e, TMPL(c), ++hits_); } \
	template <typename E> void postReact(const E& e, FullControl& c) { run_hook<CF_FULL>(c, M_POST_REACT, CLS, INJ, this, EvId<E>::ID, e.v, &e, TMPL(c), ++hits_); } \
	template <typename E> void query(E& e, ConstControl& c) const    { run_hook<CF_CONST>(c, M_QUERY,     CLS, INJ, this, EvId<E>::ID, e.v, &e, TMPL(c), ++hits_); } \
	void exitGuard (GuardControl& c) { run_hook<CF_GUARD>(c, M_EXIT_GUARD,  CLS, INJ, this, SUT_INVALID, 0, 0, TMPL(c), ++hits_); }  \
	void exit      (PlanControl&  c) noexcept { run_hook<CF_PLAN >(c, M_EXIT,        CLS, INJ, this, SUT_INVALID, 0, 0, TMPL(c), ++hits_); }

// for classes derived from injections: the react family as non-template overloads (they override the injections'
// virtual ones, so a virtual call from the engine would land here twice)
#define SUT_REACT_NT(E, CLS, INJ, TMPL)                                                                                 \
	void preReact (const E& e, FullControl& c) { run_hook<CF_FULL>(c, M_PRE_REACT,  CLS, INJ, this, EvId<E>::ID, e.v, &e, TMPL(c), ++hits_); } \
	void react    (const E& e, FullControl& c) { run_hook<CF_FULL>(c, M_REACT,      CLS, INJ, this, EvId<E>::ID, e.v, &e, TMPL(c), ++hits_); } \
	void postReact(const E& e, FullControl& c) { run_hook<CF_FULL>(c, M_POST_REACT, CLS, INJ, this, EvId<E>::ID, e.v, &e, TMPL(c), ++hits_); } \
	void query(E& e, ConstControl& c) const    { run_hook<CF_CONST>(c, M_QUERY,     CLS, INJ, this, EvId<E>::ID, e.v, &e, TMPL(c), ++hits_); }
#define SUT_CALLBACKS_NT(CLS, INJ, TMPL)                                                                                \
	mutable uint32_t hits_ = 0;                                                                                        \
	void entryGuard(GuardControl& c) noexcept { run_hook<CF_GUARD>(c, M_ENTRY_GUARD, CLS, INJ, this, SUT_INVALID, 0, 0, TMPL(c), ++hits_); }  \
	void enter     (PlanControl&  c) noexcept { run_hook<CF_PLAN >(c, M_ENTER,       CLS, INJ, this, SUT_INVALID, 0, 0, TMPL(c), ++hits_); }  \
	void reenter   (PlanControl&  c) { run_hook<CF_PLAN >(c, M_REENTER,     CLS, INJ, this, SUT_INVALID, 0, 0, TMPL(c), ++hits_); }  \
	void preUpdate (FullControl&  c) { run_hook<CF_FULL >(c, M_PRE_UPDATE,  CLS, INJ, this, SUT_INVALID, 0, 0, TMPL(c), ++hits_); }  \
	void update    (FullControl&  c) noexcept { run_hook<CF_FULL >(c, M_UPDATE,      CLS, INJ, this, SUT_INVALID, 0, 0, TMPL(c), ++hits_); }  \
	void postUpdate(FullControl&  c) noexcept { run_hook<CF_FULL >(c, M_POST_UPDATE, CLS, INJ, this, SUT_INVALID, 0, 0, TMPL(c), ++hits_); }  \
	SUT_REACT_NT(Ev0, CLS, INJ, TMPL) SUT_REACT_NT(Ev1, CLS, INJ, TMPL) SUT_REACT_NT(Ev2, CLS, INJ, TMPL)               \
	void exitGuard (GuardControl& c) { run_hook<CF_GUARD>(c, M_EXIT_GUARD,  CLS, INJ, this, SUT_INVALID, 0, 0, TMPL(c), ++hits_); }  \
	void exit      (PlanControl&  c) noexcept { run_hook<CF_PLAN >(c, M_EXIT,        CLS, INJ, this, SUT_INVALID, 0, 0, TMPL(c), ++hits_); }

#define SUT_PLAN_CALLBACKS(CLS, INJ, TMPL)                                                                              \
	void planSucceeded(FullControl& c) { run_hook<CF_FULL>(c, M_PLAN_SUCCEEDED, CLS, INJ, this, SUT_INVALID, 0, 0, TMPL(c), ++hits_); } \
	void planFailed   (FullControl& c) { run_hook<CF_FULL>(c, M_PLAN_FAILED,    CLS, INJ, this, SUT_INVALID, 0, 0, TMPL(c), ++hits_); }

#define TMPL_NONE(c) 1
// the typed form isActive<T>() must agree with isActive(id) -- for the state itself, a neighbour, the first and the last state
#define TMPL_ROOT(c) ((c.template isActive<St<0> >() == c.isActive(static_cast<ffsm2::StateID>(0)) && c.template isActive<St<SUT_N - 1> >() == c.isActive(static_cast<ffsm2::StateID>(SUT_N - 1))) ? 1 : 0)

//------------------------------------------------------------------------------------------------
// state classes

// Injections declare some callbacks virtual (a user is free to): the engine must still call each class's own version
// exactly once, i.e. with qualified, non-virtual calls.
template <unsigned I, unsigned J>
struct Inj : FSM::State {
	mutable uint32_t hits_ = 0;
	Inj() {}
	Inj(const Inj& o) : FSM::State(o), hits_(o.hits_) {}
	Inj& operator = (const Inj& o) { hits_ = o.hits_; return *this; }
	virtual void entryGuard(typename FSM::GuardControl& c) noexcept { run_hook<CF_GUARD>(c, M_ENTRY_GUARD, I, J, this, SUT_INVALID, 0, 0, 1, ++hits_); }
	virtual void enter     (typename FSM::State::PlanControl&  c) noexcept { run_hook<CF_PLAN >(c, M_ENTER,       I, J, this, SUT_INVALID, 0, 0, 1, ++hits_); }
	void reenter   (typename FSM::State::PlanControl&  c) { run_hook<CF_PLAN >(c, M_REENTER,     I, J, this, SUT_INVALID, 0, 0, 1, ++hits_); }
	void preUpdate (typename FSM::FullControl&  c) { run_hook<CF_FULL >(c, M_PRE_UPDATE,  I, J, this, SUT_INVALID, 0, 0, 1, ++hits_); }
	virtual void update    (typename FSM::FullControl&  c) noexcept { run_hook<CF_FULL >(c, M_UPDATE,      I, J, this, SUT_INVALID, 0, 0, 1, ++hits_); }
	virtual void postUpdate(typename FSM::FullControl&  c) noexcept { run_hook<CF_FULL >(c, M_POST_UPDATE, I, J, this, SUT_INVALID, 0, 0, 1, ++hits_); }
	// the react family as ordinary virtual overloads per event type plus the library's catch-all (the idiom a
	// multi-event machine needs): the engine must pick these overloads, each exactly once, non-virtually
	using FSM::State::preReact; using FSM::State::react; using FSM::State::postReact; using FSM::State::query;
#define SUT_INJ_REACT(E) \
	virtual void preReact (const E& e, typename FSM::FullControl& c) { run_hook<CF_FULL>(c, M_PRE_REACT,  I, J, this, EvId<E>::ID, e.v, &e, 1, ++hits_); } \
	virtual void react    (const E& e, typename FSM::FullControl& c) { run_hook<CF_FULL>(c, M_REACT,      I, J, this, EvId<E>::ID, e.v, &e, 1, ++hits_); } \
	virtual void postReact(const E& e, typename FSM::FullControl& c) { run_hook<CF_FULL>(c, M_POST_REACT, I, J, this, EvId<E>::ID, e.v, &e, 1, ++hits_); } \
	virtual void query(E& e, typename FSM::ConstControl& c) const    { run_hook<CF_CONST>(c, M_QUERY,     I, J, this, EvId<E>::ID, e.v, &e, 1, ++hits_); }
	SUT_INJ_REACT(Ev0) SUT_INJ_REACT(Ev1) SUT_INJ_REACT(Ev2)
#undef SUT_INJ_REACT
	void exitGuard (typename FSM::GuardControl& c) { run_hook<CF_GUARD>(c, M_EXIT_GUARD,  I, J, this, SUT_INVALID, 0, 0, 1, ++hits_); }
	virtual void exit      (typename FSM::State::PlanControl&  c) noexcept { run_hook<CF_PLAN >(c, M_EXIT,        I, J, this, SUT_INVALID, 0, 0, 1, ++hits_); }
};

template <unsigned I, int K> struct StBase;

#define TMPL_STATE(c) ((c.template isActive<St<I> >() == c.isActive(static_cast<ffsm2::StateID>(I)) && c.template isActive<St<(I + 1) % SUT_N> >() == c.isActive(static_cast<ffsm2::StateID>((I + 1) % SUT_N)) && c.template isActive<St<SUT_N - 1> >() == c.isActive(static_cast<ffsm2::StateID>(SUT_N - 1))) ? 1 : 0)

template <unsigned I> struct StBase<I, K_FULL> : FSM::State {
	SUT_CALLBACKS(I, 0, TMPL_STATE)
};
template <unsigned I> struct StBase<I, K_BARE> : FSM::State {};
template <unsigned I> struct StBase<I, K_INJ1> : FSM::StateT<Inj<I, 1> > {
	typedef typename FSM::GuardControl GuardControl; typedef typename FSM::FullControl FullControl;
	typedef typename FSM::State::PlanControl PlanControl; typedef typename FSM::ConstControl ConstControl;
	SUT_CALLBACKS_NT(I, 0, TMPL_STATE)
};
template <unsigned I> struct StBase<I, K_INJ2> : FSM::StateT<Inj<I, 1>, Inj<I, 2> > {
	typedef typename FSM::GuardControl GuardControl; typedef typename FSM::FullControl FullControl;
	typedef typename FSM::State::PlanControl PlanControl; typedef typename FSM::ConstControl ConstControl;
	SUT_CALLBACKS_NT(I, 0, TMPL_STATE)
};
template <unsigned I> struct StBase<I, K_INJ3> : FSM::StateT<Inj<I, 1>, Inj<I, 2>, Inj<I, 3> > {
	typedef typename FSM::GuardControl GuardControl; typedef typename FSM::FullControl FullControl;
	typedef typename FSM::State::PlanControl PlanControl; typedef typename FSM::ConstControl ConstControl;
	SUT_CALLBACKS_NT(I, 0, TMPL_STATE)
};
template <unsigned I> struct StBase<I, K_PARTIAL> : FSM::State {
	mutable uint32_t hits_ = 0;
	void entryGuard(GuardControl& c) noexcept { run_hook<CF_GUARD>(c, M_ENTRY_GUARD, I, 0, this, SUT_INVALID, 0, 0, TMPL_STATE(c), ++hits_); }
	void enter     (PlanControl&  c) noexcept { run_hook<CF_PLAN >(c, M_ENTER,       I, 0, this, SUT_INVALID, 0, 0, TMPL_STATE(c), ++hits_); }
	void update    (FullControl&  c) noexcept { run_hook<CF_FULL >(c, M_UPDATE,      I, 0, this, SUT_INVALID, 0, 0, TMPL_STATE(c), ++hits_); }
	template <typename E> void postReact(const E& e, FullControl& c) { run_hook<CF_FULL>(c, M_POST_REACT, I, 0, this, EvId<E>::ID, e.v, &e, TMPL_STATE(c), ++hits_); }
	void exit      (PlanControl&  c) noexcept { run_hook<CF_PLAN >(c, M_EXIT,        I, 0, this, SUT_INVALID, 0, 0, TMPL_STATE(c), ++hits_); }
};

template <unsigned I> struct StBase<I, K_PARTIAL2> : FSM::State {
	mutable uint32_t hits_ = 0;
	void reenter   (PlanControl&  c) { run_hook<CF_PLAN >(c, M_REENTER,     I, 0, this, SUT_INVALID, 0, 0, TMPL_STATE(c), ++hits_); }
	void preUpdate (FullControl&  c) { run_hook<CF_FULL >(c, M_PRE_UPDATE,  I, 0, this, SUT_INVALID, 0, 0, TMPL_STATE(c), ++hits_); }
	template <typename E> void react(const E& e, FullControl& c) { run_hook<CF_FULL>(c, M_REACT, I, 0, this, EvId<E>::ID, e.v, &e, TMPL_STATE(c), ++hits_); }
	template <typename E> void query(E& e, ConstControl& c) const { run_hook<CF_CONST>(c, M_QUERY, I, 0, this, EvId<E>::ID, e.v, &e, TMPL_STATE(c), ++hits_); }
	void exitGuard (GuardControl& c) { run_hook<CF_GUARD>(c, M_EXIT_GUARD,  I, 0, this, SUT_INVALID, 0, 0, TMPL_STATE(c), ++hits_); }
};

// one injection, and a state class that defines nothing itself: every callback must reach the injection exactly once
template <unsigned I> struct StBase<I, K_INJ1N> : FSM::StateT<Inj<I, 1> > {};

template <unsigned I> struct St : StBase<I, SUT_KIND_OF(I)> {};

#if SUT_ROOT_KIND == 0
struct R : FSM::State {
	SUT_CALLBACKS(SUT_INVALID, 0, TMPL_ROOT)
#if SF_PLANS
	SUT_PLAN_CALLBACKS(SUT_INVALID, 0, TMPL_ROOT)
#endif
};
#elif SUT_ROOT_KIND == 1
struct R : FSM::State {};
#elif SUT_ROOT_KIND == 2
struct R : FSM::StateT<Inj<SUT_INVALID, 1> > {
	SUT_CALLBACKS_NT(SUT_INVALID, 0, TMPL_ROOT)
#if SF_PLANS
	SUT_PLAN_CALLBACKS(SUT_INVALID, 0, TMPL_ROOT)
#endif
};
#elif SUT_ROOT_KIND == 5
struct R : FSM::State {
	mutable uint32_t hits_ = 0;
	void entryGuard(GuardControl& c) noexcept { run_hook<CF_GUARD>(c, M_ENTRY_GUARD, SUT_INVALID, 0, this, SUT_INVALID, 0, 0, TMPL_ROOT(c), ++hits_); }
	void enter     (PlanControl&  c) noexcept { run_hook<CF_PLAN >(c, M_ENTER,       SUT_INVALID, 0, this, SUT_INVALID, 0, 0, TMPL_ROOT(c), ++hits_); }
	void update    (FullControl&  c) noexcept { run_hook<CF_FULL >(c, M_UPDATE,      SUT_INVALID, 0, this, SUT_INVALID, 0, 0, TMPL_ROOT(c), ++hits_); }
	template <typename E> void postReact(const E& e, FullControl& c) { run_hook<CF_FULL>(c, M_POST_REACT, SUT_INVALID, 0, this, EvId<E>::ID, e.v, &e, TMPL_ROOT(c), ++hits_); }
	void exit      (PlanControl&  c) noexcept { run_hook<CF_PLAN >(c, M_EXIT,        SUT_INVALID, 0, this, SUT_INVALID, 0, 0, TMPL_ROOT(c), ++hits_); }
#if SF_PLANS
	void planFailed(FullControl&  c) { run_hook<CF_FULL >(c, M_PLAN_FAILED, SUT_INVALID, 0, this, SUT_INVALID, 0, 0, TMPL_ROOT(c), ++hits_); }
#endif
};
#endif

//------------------------------------------------------------------------------------------------
// logger

#if SF_LOG
struct SimLogger : FSM::Logger {
	typedef FSM::Logger Base;
	void recordMethod(const Base::Context& context, const ffsm2::StateID origin, const ffsm2::Method method) override {
		sim_log(LOG_METHOD, origin, static_cast<int>(method), ctx_addr(context));
	}
	void recordTransition(const Base::Context& context, const ffsm2::StateID origin, const ffsm2::StateID target) override {
		sim_log(LOG_TRANSITION, origin, target, ctx_addr(context));
	}
#if SF_PLANS
	void recordTaskStatus(const Base::Context& context, const ffsm2::StateID origin, const ffsm2::StatusEvent event) override {
		sim_log(LOG_TASK_STATUS, origin, static_cast<int>(event), ctx_addr(context));
	}
	void recordPlanStatus(const Base::Context& context, const ffsm2::StatusEvent event) override {
		sim_log(LOG_PLAN_STATUS, SUT_INVALID, static_cast<int>(event), ctx_addr(context));
	}
#endif
	void recordCancelledPending(const Base::Context& context, const ffsm2::StateID origin) override {
		sim_log(LOG_CANCELLED, origin, 0, ctx_addr(context));
	}
};
static SimLogger g_logger;
#endif

//------------------------------------------------------------------------------------------------
// per-index dispatch tables

static char g_access_mismatch;
template <unsigned I> struct Tab {
	// the const overload must name the same object (bound to a reference first: a by-value return must not compile away)
	static const void* access(Inst& m)          { const St<I>& r = static_cast<const Inst&>(m).template access<St<I> >();
	                                              const void* a = &m.template access<St<I> >(); return static_cast<const void*>(&r) == a ? a : static_cast<const void*>(&g_access_mismatch); }
	static int  is_active_tmpl(const Inst& m)   { return m.isActive<St<I> >() ? 1 : 0; }
	static int  declared_id()                   { return FSM::stateId<St<I> >(); }
};

typedef const void* (*AccessFn)(Inst&);
typedef int (*ActiveFn)(const Inst&);
typedef int (*IdFn)();

#define X(i) &Tab<i>::access,
const AccessFn g_access[] = { SUT_STATES(X) };
#undef X
#define X(i) &Tab<i>::is_active_tmpl,
const ActiveFn g_active_tmpl[] = { SUT_STATES(X) };
#undef X
#define X(i) &Tab<i>::declared_id,
const IdFn g_declared_id[] = { SUT_STATES(X) };
#undef X

SutInfo g_info;
bool g_info_ready = false;

void set_defines(uint8_t* row, int kind, bool root) {
	memset(row, 0, M_COUNT);
	if (kind == K_FULL || kind == K_INJ1 || kind == K_INJ2 || kind == K_INJ3 || kind == K_INJ1N) {
		for (int m = M_ENTRY_GUARD; m <= M_EXIT; ++m) row[m] = 1;
		if (root && SF_PLANS) { row[M_PLAN_SUCCEEDED] = 1; row[M_PLAN_FAILED] = 1; }
	} else if (kind == K_PARTIAL2) {
		row[M_REENTER] = row[M_PRE_UPDATE] = row[M_REACT] = row[M_QUERY] = row[M_EXIT_GUARD] = 1;
	} else if (kind == K_PARTIAL) {
		row[M_ENTRY_GUARD] = row[M_ENTER] = row[M_UPDATE] = row[M_POST_REACT] = row[M_EXIT] = 1;
		if (root && SF_PLANS) row[M_PLAN_FAILED] = 1;
	}
}

inline Inst*       I_(void* p)       { return static_cast<Inst*>(p); }
inline const Inst* CI_(const void* p) { return static_cast<const Inst*>(p); }

} // namespace sut

using namespace sut;

//------------------------------------------------------------------------------------------------
// driver table

#if SUT_TYPED
template <typename M> void inst_change_to(M& m, unsigned k, bool imm) {
	switch (k) {
#define X(i) case i: if (imm) m.template immediateChangeTo<St<i> >(); else m.template changeTo<St<i> >(); break;
	SUT_STATES(X)
#undef X
	default: break; }
}
#if SUT_HAS_PAYLOAD
template <typename M> void inst_change_with(M& m, unsigned k, bool imm, const Payload& p) {
	switch (k) {
#define X(i) case i: if (imm) m.template immediateChangeWith<St<i> >(p); else m.template changeWith<St<i> >(p); break;
	SUT_STATES(X)
#undef X
	default: break; }
}
#endif
#endif

extern "C" {

const SutInfo* sut_info(void) {
	if (!g_info_ready) {
		SutInfo& s = g_info;
		memset(&s, 0, sizeof(s));
		s.variant   = SUT_VARIANT_NAME;
		s.n_states  = SUT_N;
#if SF_PLANS
		s.capacity  = (SUT_C > 0) ? SUT_C : SUT_N;      // from the configuration, not from the library
		s.lib_capacity = FSM::Instance::TASK_CAPACITY;
#else
		s.capacity  = 0;
#endif
		s.limit     = SUT_L;
		s.manual    = SUT_MANUAL;
		s.root_kind = SUT_ROOT_KIND;
		s.payload_kind  = SUT_PAYLOAD_KIND;
		s.payload_vsize = PLK::VSIZE;
#if SUT_HAS_PAYLOAD
		s.payload_size  = sizeof(Payload);
		s.payload_align = alignof(Payload);
#endif
		s.ctx_kind  = SUT_CTX_KIND;
		s.f_plans = SF_PLANS; s.f_serial = SF_SERIAL; s.f_history = SF_HISTORY; s.f_log = SF_LOG; s.f_verbose = SF_VERBOSE;
		s.f_structure = SF_STRUCTURE; s.f_debugtype = SF_DEBUGTYPE; s.f_notypeindex = SF_NOTYPEINDEX;
		s.header_dev = SUT_HEADER_DEV;
		s.inst_size  = sizeof(Inst);
		s.inst_align = alignof(Inst);
#if SF_SERIAL
		s.serial_bits     = Inst::SerialBuffer::BIT_CAPACITY;
		s.serial_bytes    = sizeof(Inst::SerialBuffer::Data);
		s.serial_obj_size = sizeof(Inst::SerialBuffer);
#endif
		for (unsigned i = 0; i < SUT_N; ++i) {
			s.kind[i] = static_cast<uint8_t>(SUT_KIND_OF(i));
			set_defines(s.defines[i], s.kind[i], false);
			s.id_of[i] = static_cast<uint8_t>(g_declared_id[i]());
		}
		set_defines(s.defines[SUT_INVALID], SUT_ROOT_KIND, true);
#if SUT_ROOT_KIND != 6
		s.root_id = FSM::stateId<R>();
#else
		s.root_id = SUT_INVALID;
#endif
		g_info_ready = true;
	}
	return &g_info;
}

void* sut_ctx_slot(int slot) { return &g_ctx_slots[slot & 15]; }

void* sut_construct(void* mem, int ctx_slot, uint64_t tag, int with_logger) {
	Ctx& ext = g_ctx_slots[ctx_slot & 15];
	ext.tag = tag; ext.touched = 0;
#if SF_LOG
	FSM::Logger* const lg = with_logger ? &g_logger : nullptr;
#define LG , lg
#define LG1 lg
#else
	(void) with_logger;
#define LG
#define LG1
#endif
#if   SUT_CTX_KIND == 0
	return new (mem) Inst(LG1);
#elif SUT_CTX_KIND == 1
	if (tag & 1) { Ctx tmp; tmp.tag = tag; tmp.touched = 0; return new (mem) Inst(static_cast<Ctx&&>(tmp) LG); }
	return new (mem) Inst(ext LG);
#elif SUT_CTX_KIND == 2
	return new (mem) Inst(ext LG);
#else
	return new (mem) Inst(&ext LG);
#endif
#undef LG
#undef LG1
}

void* sut_copy(void* mem, const void* src) { return new (mem) Inst(*CI_(src)); }
#if SUT_CTX_KIND != 2
void* sut_move(void* mem, void* src) { return new (mem) Inst(static_cast<Inst&&>(*I_(src))); }
#else
// a machine with a reference context cannot be move-constructed at all: CoreT's move constructor initialises
// `context{move(other.context)}`, which does not bind an lvalue reference (compile error) -- copy instead
void* sut_move(void* mem, void* src) { return new (mem) Inst(*CI_(src)); }
#endif
void  sut_destroy(void* inst) { I_(inst)->~Inst(); }

#if SUT_MANUAL
int sut_enter(void* inst) { I_(inst)->enter(); return 1; }
int sut_exit (void* inst) { I_(inst)->exit();  return 1; }
int sut_is_active(const void* inst) { return CI_(inst)->isActive() ? 1 : 0; }
#else
int sut_enter(void*) { return -1; }
int sut_exit (void*) { return -1; }
int sut_is_active(const void*) { return -1; }
#endif

void sut_update(void* inst) { I_(inst)->update(); }

void sut_react(void* inst, int ev_type, uint64_t value) {
	switch (ev_type) {
	case 0: { Ev0 e; e.v = value; I_(inst)->react(e); break; }
	case 1: { Ev1 e; e.v = value; memset(e.pad, 0x5a, sizeof(e.pad)); I_(inst)->react(e); break; }
	default:{ Ev2 e; e.v = static_cast<uint32_t>(value); I_(inst)->react(e); break; }
	}
}

void sut_query(const void* inst, int ev_type, uint64_t value) {
	switch (ev_type) {
	case 0: { Ev0 e; e.v = value; CI_(inst)->query(e); break; }
	case 1: { Ev1 e; e.v = value; memset(e.pad, 0x5a, sizeof(e.pad)); CI_(inst)->query(e); break; }
	default:{ Ev2 e; e.v = static_cast<uint32_t>(value); CI_(inst)->query(e); break; }
	}
}

void sut_change_to(void* inst, int dest)           { I_(inst)->changeTo(static_cast<ffsm2::StateID>(dest)); }
void sut_immediate_change_to(void* inst, int dest) { I_(inst)->immediateChangeTo(static_cast<ffsm2::StateID>(dest)); }

#if SUT_HAS_PAYLOAD
int sut_change_with(void* inst, int dest, const uint8_t* p)           { I_(inst)->changeWith(static_cast<ffsm2::StateID>(dest), PLK::unpack(p)); return 1; }
int sut_immediate_change_with(void* inst, int dest, const uint8_t* p) { I_(inst)->immediateChangeWith(static_cast<ffsm2::StateID>(dest), PLK::unpack(p)); return 1; }
#else
int sut_change_with(void*, int, const uint8_t*)           { return -1; }
int sut_immediate_change_with(void*, int, const uint8_t*) { return -1; }
#endif

int sut_typed_available(void) { return SUT_TYPED; }
#if SUT_TYPED
int sut_change_to_typed(void* inst, int dest, int immediate, const uint8_t* pl) {
#if SUT_HAS_PAYLOAD
	if (pl) { inst_change_with(*I_(inst), static_cast<unsigned>(dest), immediate != 0, PLK::unpack(pl)); return 1; }
#else
	(void) pl;
#endif
	inst_change_to(*I_(inst), static_cast<unsigned>(dest), immediate != 0); return 1;
}
#if SF_PLANS
int sut_report_typed(void* inst, int id, int success) { typed_report(*I_(inst), static_cast<unsigned>(id), success != 0); return 1; }
int sut_plan_append_typed(void* inst, int o, int d, const uint8_t* pl) {
	auto p = I_(inst)->plan();
#if SUT_HAS_PAYLOAD
	if (pl) return typed_plan_change_with(p, static_cast<unsigned>(o), static_cast<unsigned>(d), PLK::unpack(pl)) ? 1 : 0;
#else
	(void) pl;
#endif
	return typed_plan_change(p, static_cast<unsigned>(o), static_cast<unsigned>(d)) ? 1 : 0;
}
#else
int sut_report_typed(void*, int, int) { return -1; }
int sut_plan_append_typed(void*, int, int, const uint8_t*) { return -1; }
#endif
#else
int sut_change_to_typed(void*, int, int, const uint8_t*) { return -1; }
int sut_report_typed(void*, int, int) { return -1; }
int sut_plan_append_typed(void*, int, int, const uint8_t*) { return -1; }
#endif

#if SF_PLANS
int sut_succeed(void* inst, int id) { I_(inst)->succeed(static_cast<ffsm2::StateID>(id)); return 1; }
int sut_fail   (void* inst, int id) { I_(inst)->fail   (static_cast<ffsm2::StateID>(id)); return 1; }
int sut_plan_append(void* inst, int o, int d) {
	auto p = I_(inst)->plan();
	return p.change(static_cast<ffsm2::StateID>(o), static_cast<ffsm2::StateID>(d)) ? 1 : 0;
}
int sut_plan_append_with(void* inst, int o, int d, const uint8_t* pl) {
	auto p = I_(inst)->plan();
#if SUT_HAS_PAYLOAD
	return p.changeWith(static_cast<ffsm2::StateID>(o), static_cast<ffsm2::StateID>(d), PLK::unpack(pl)) ? 1 : 0;
#else
	(void) pl; return p.change(static_cast<ffsm2::StateID>(o), static_cast<ffsm2::StateID>(d)) ? 1 : 0;
#endif
}
int sut_plan_remove_nth(void* inst, int nth) {
	auto p = I_(inst)->plan(); int i = 0;
	for (auto it = p.begin(); it; ++it, ++i)
		if (i == nth) { it.remove(); return 1; }
	return 0;
}
int sut_plan_clear(void* inst) { auto p = I_(inst)->plan(); p.clear(); return 1; }
int sut_plan_walk(void* inst, const uint8_t* mask, SutTask* out, int* out_count) {
	auto p = I_(inst)->plan(); unsigned i = 0;
	for (auto it = p.begin(); it && i <= SUT_MAX_TASKS; ++it, ++i) {
		read_task(out[i], *it);
		if (mask[i >> 3] & (1u << (i & 7))) it.remove();
	}
	*out_count = static_cast<int>(i);
	return 1;
}
int sut_plan_read(const void* inst, SutPlan* out)  { auto p = CI_(inst)->plan(); read_plan<true>(*out, p); return 1; }
int sut_plan_read_m(void* inst, SutPlan* out)      {
	auto p = I_(inst)->plan();  read_plan<false>(*out, p);
	const auto& kp = p; read_plan<false>(g_plan_tmp, kp);       // const Plan: must iterate the same tasks
	if (!same_plan(g_plan_tmp, *out)) { *out = g_plan_tmp; out->nonempty = static_cast<uint8_t>(out->nonempty | 2); }
	return 1; }
#else
int sut_succeed(void*, int) { return -1; }
int sut_fail   (void*, int) { return -1; }
int sut_plan_append(void*, int, int) { return -1; }
int sut_plan_append_with(void*, int, int, const uint8_t*) { return -1; }
int sut_plan_remove_nth(void*, int) { return -1; }
int sut_plan_clear(void*) { return -1; }
int sut_plan_walk(void*, const uint8_t*, SutTask*, int* c) { *c = 0; return -1; }
int sut_plan_read(const void*, SutPlan* out) { out->available = 0; out->nonempty = 0; out->count = 0; return -1; }
int sut_plan_read_m(void*, SutPlan* out)     { out->available = 0; out->nonempty = 0; out->count = 0; return -1; }
#endif

#if SF_SERIAL
void sut_serial_init(void* sbmem, int garbage) {
	Inst::SerialBuffer* sb = new (sbmem) Inst::SerialBuffer;
	if (garbage) memset(sb->data(), garbage, sizeof(Inst::SerialBuffer::Data));
}
int  sut_save(const void* inst, void* sbmem)  { CI_(inst)->save(*static_cast<Inst::SerialBuffer*>(sbmem)); return 1; }
int  sut_load(void* inst, const void* sbmem)  { I_(inst)->load(*static_cast<const Inst::SerialBuffer*>(sbmem)); return 1; }
void sut_serial_bytes(const void* sbmem, uint8_t* out) {
	const Inst::SerialBuffer* sb = static_cast<const Inst::SerialBuffer*>(sbmem);
	memcpy(out, sb->data(), sizeof(Inst::SerialBuffer::Data));
}
int sut_serial_compare(const void* a, const void* b) {
	const Inst::SerialBuffer& x = *static_cast<const Inst::SerialBuffer*>(a);
	const Inst::SerialBuffer& y = *static_cast<const Inst::SerialBuffer*>(b);
	return ((x == y) ? 1 : 0) | ((x != y) ? 2 : 0);
}
#else
int sut_serial_compare(const void*, const void*) { return -1; }
void sut_serial_init(void*, int) {}
int  sut_save(const void*, void*) { return -1; }
int  sut_load(void*, const void*) { return -1; }
void sut_serial_bytes(const void*, uint8_t*) {}
#endif

#if SF_HISTORY
int sut_replay_transition(void* inst, int dest) { return I_(inst)->replayTransition(static_cast<ffsm2::StateID>(dest)) ? 1 : 0; }
int sut_previous(const void* inst, SutTrans* out) { read_trans(*out, CI_(inst)->previousTransition()); return 1; }
#if SUT_MANUAL
int sut_replay_enter(void* inst, int dest) { I_(inst)->replayEnter(static_cast<ffsm2::StateID>(dest)); return 1; }
#else
int sut_replay_enter(void*, int) { return -1; }
#endif
#else
int sut_replay_transition(void*, int) { return -1; }
int sut_replay_enter(void*, int) { return -1; }
int sut_previous(const void*, SutTrans* out) { memset(out, 0, sizeof(*out)); return -1; }
#endif

#if SF_LOG
int sut_attach_logger(void* inst, int on) { I_(inst)->attachLogger(on ? &g_logger : nullptr); return 1; }
#else
int sut_attach_logger(void*, int) { return -1; }
#endif

int sut_active_id(const void* inst)            { return CI_(inst)->activeStateId(); }
int sut_is_active_id(const void* inst, int id) { return CI_(inst)->isActive(static_cast<ffsm2::StateID>(id)) ? 1 : 0; }
int sut_is_active_tmpl(const void* inst, int idx) { return (idx >= 0 && idx < SUT_N) ? g_active_tmpl[idx](*CI_(inst)) : -1; }

const void* sut_context_addr(const void* inst) { return ctx_addr(CI_(inst)->context()); }
uint64_t    sut_context_tag (const void* inst) { return ctx_tag (CI_(inst)->context()); }
void        sut_context_counts(uint32_t* copies, uint32_t* moves) { *copies = g_ctx_copies; *moves = g_ctx_moves; }

const void* sut_access_addr(void* inst, int idx) {
	if (idx >= 0 && idx < SUT_N) return g_access[idx](*I_(inst));
#if SUT_ROOT_KIND != 6
	if (idx == SUT_INVALID) return &I_(inst)->access<R>();
#endif
	return 0;
}

} // extern "C"
