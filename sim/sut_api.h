/* sut_api.h — plain-C interface between the only translation unit that includes FFSM2 (sut.cpp,
 * built once per variant) and the simulator core (sim_core.cpp, knows nothing about FFSM2 types).
 * Everything crossing the boundary is POD. */
#ifndef SUT_API_H
#define SUT_API_H

#include <stddef.h>
#include <stdint.h>

#ifdef __cplusplus
extern "C" {
#endif

enum { SUT_MAX_PAYLOAD = 32, SUT_MAX_STATES = 255, SUT_MAX_TASKS = 255, SUT_INVALID = 255 };

/* same numbering as ffsm2::Method (static_assert'ed in sut.cpp) */
enum SutMethod {
	M_NONE, M_ENTRY_GUARD, M_ENTER, M_REENTER, M_PRE_UPDATE, M_UPDATE, M_POST_UPDATE,
	M_PRE_REACT, M_REACT, M_QUERY, M_POST_REACT, M_EXIT_GUARD, M_EXIT,
	M_PLAN_SUCCEEDED, M_PLAN_FAILED, M_COUNT
};

enum SutFlavour { CF_CONST, CF_PLAN, CF_FULL, CF_GUARD };

enum SutKind {            /* how the class of a state is written */
	K_FULL,               /* defines every callback itself                                        */
	K_BARE,               /* struct : FSM::State {} — defines nothing                            */
	K_INJ1, K_INJ2, K_INJ3,/* FSM::StateT<Inj<1..k>> and defines every callback itself            */
	K_PARTIAL,            /* defines entryGuard, enter, exit, update, postReact only              */
	K_NONE,               /* (root only) PeerRoot: there is no root head class                    */
	K_INJ1N,              /* FSM::StateT<Inj<1>> that defines no callback itself (only the injection) */
	K_PARTIAL2            /* defines exitGuard, reenter, preUpdate, react, query only                */
};

enum SutPayloadKind { P_VOID, P_U8, P_I32, P_F64, P_C3, P_B24, P_A16, P_A32, P_G300 };
enum SutCtxKind { X_EMPTY, X_VALUE, X_REF, X_PTR };

typedef struct SutTrans {
	uint8_t valid;        /* static_cast<bool>(transition)                                        */
	uint8_t origin, dest;
	uint8_t has_payload;  /* payload() != nullptr                                                 */
	uint8_t payload[SUT_MAX_PAYLOAD];
} SutTrans;

typedef struct SutTask {
	uint8_t origin, dest, has_payload;
	uint8_t payload[SUT_MAX_PAYLOAD];
} SutTask;

typedef struct SutPlan {
	uint8_t  available;   /* plans compiled in                                                    */
	uint8_t  nonempty;    /* explicit operator bool                                               */
	uint16_t count;       /* tasks visited by iteration (capped at SUT_MAX_TASKS + 1)             */
	uint8_t  first_o, first_d, last_o, last_d;   /* first()/last(), only read when nonempty      */
	SutTask  tasks[SUT_MAX_TASKS + 1];
} SutPlan;

typedef struct SutView {
	uint8_t method, cls, inj, flavour;
	uint8_t state_id;                 /* control.stateId()                                        */
	uint8_t event_type;               /* 0..2, SUT_INVALID when the callback has no event         */
	uint64_t event_value;
	const void* event_addr;
	const void* self;                 /* `this` of the class whose callback runs                  */
	uint32_t self_hits;               /* member data of that object: number of callbacks it has received */
	const void* ctx_a;                /* &control.context()  (pointer contexts: the pointer)      */
	const void* ctx_b;                /* &control._()                                             */
	uint64_t ctx_tag;                 /* value read through the context (0 for empty contexts)    */
	SutTrans request;
	SutTrans pending;  uint8_t has_pending;   /* guards only                                      */
	SutTrans current;  uint8_t has_current;   /* plan / full / guard controls                     */
	SutTrans previous; uint8_t has_previous;  /* control.previousTransitions(), history builds    */
	uint8_t active[32];               /* bit i = control.isActive(i), i < N                       */
	uint8_t active_tmpl_ok;           /* control.isActive<St<cls>>() == control.isActive(cls)     */
	uint8_t active_invalid;           /* control.isActive(INVALID_STATE_ID), the root's id        */
	SutPlan plan;                     /* read through the const plan() of this control            */
	uint8_t plan_m_same;              /* mutable plan() iterates identically (plan/full/guard)    */
	/* outcome of the previous action performed inside this very hook invocation */
	uint8_t step;                     /* 0 = first call of this invocation                        */
	uint8_t last_kind, last_result;
	uint16_t walk_count; SutTask walk[SUT_MAX_TASKS + 1];
} SutView;

enum SutActionKind {
	A_NONE, A_CANCEL, A_CHANGE_TO, A_CHANGE_WITH,
	A_SUCCEED_SELF, A_FAIL_SELF, A_SUCCEED, A_FAIL,
	A_PLAN_APPEND, A_PLAN_APPEND_WITH, A_PLAN_REMOVE_NTH, A_PLAN_CLEAR, A_PLAN_WALK,
	A_LOGGER_ATTACH, A_LOGGER_DETACH,   /* performed by the simulator on the instance itself, in the middle of a callback; a no-op for sut.cpp */
	A_COUNT
};

typedef struct SutAction {
	uint8_t kind, a, b, has_payload;
	uint8_t payload[SUT_MAX_PAYLOAD];
	uint8_t mask[32];                 /* A_PLAN_WALK: positions to remove while walking           */
} SutAction;

typedef struct SutInfo {
	const char* variant;
	uint16_t n_states; uint16_t capacity; uint16_t lib_capacity; uint8_t limit;
	uint8_t manual, root_kind;
	uint8_t payload_kind, payload_vsize, payload_size, payload_align;
	uint8_t ctx_kind;
	uint8_t f_plans, f_serial, f_history, f_log, f_verbose, f_structure, f_debugtype, f_notypeindex;
	uint8_t header_dev;
	uint32_t inst_size, inst_align;
	uint16_t serial_bits, serial_bytes, serial_obj_size;
	uint8_t kind[SUT_MAX_STATES];
	uint8_t defines[SUT_MAX_STATES + 1][M_COUNT];  /* [255] = root; 1 = the class itself defines it */
	uint8_t id_of[SUT_MAX_STATES];    /* FSM::stateId<St<i>>() as computed by the library at run time */
	uint8_t root_id;
} SutInfo;

/* ---- implemented by sim_core.cpp, called from sut.cpp ------------------------------------- */
int  sim_hook(const SutView* view, SutAction* out);      /* 1 = perform *out and call again     */
void sim_log(int kind, int origin, int arg, const void* ctx_addr);   /* logger records            */
enum { LOG_METHOD, LOG_TRANSITION, LOG_TASK_STATUS, LOG_PLAN_STATUS, LOG_CANCELLED };

/* ---- implemented by sut.cpp ----------------------------------------------------------------- */
const SutInfo* sut_info(void);
void* sut_ctx_slot(int slot);                            /* external context object #slot         */
void* sut_construct(void* mem, int ctx_slot, uint64_t tag, int with_logger);
void* sut_copy(void* mem, const void* src);
void* sut_move(void* mem, void* src);                   /* move-construct; src stays a valid (moved-from) object */
void  sut_destroy(void* inst);
int   sut_enter(void* inst);
int   sut_exit(void* inst);
void  sut_update(void* inst);
void  sut_react(void* inst, int ev_type, uint64_t value);
void  sut_query(const void* inst, int ev_type, uint64_t value);
void  sut_change_to(void* inst, int dest);
int   sut_change_with(void* inst, int dest, const uint8_t* payload);
void  sut_immediate_change_to(void* inst, int dest);
int   sut_immediate_change_with(void* inst, int dest, const uint8_t* payload);
/* `typed` != 0: use the template form (changeTo<T>(), succeed<T>(), plan.change<TOrigin>(dest) ...) where the build provides the dispatch table */
int   sut_typed_available(void);
int   sut_change_to_typed(void* inst, int dest, int immediate, const uint8_t* payload_or_null);
int   sut_report_typed(void* inst, int id, int success);
int   sut_plan_append_typed(void* inst, int o, int d, const uint8_t* payload_or_null);
int   sut_succeed(void* inst, int id);
int   sut_fail(void* inst, int id);
int   sut_plan_append(void* inst, int o, int d);
int   sut_plan_append_with(void* inst, int o, int d, const uint8_t* payload);
int   sut_plan_remove_nth(void* inst, int nth);
int   sut_plan_clear(void* inst);
int   sut_plan_walk(void* inst, const uint8_t* mask, SutTask* out, int* out_count);
int   sut_plan_read(const void* inst, SutPlan* out);     /* via const plan()                      */
int   sut_plan_read_m(void* inst, SutPlan* out);         /* via mutable plan()                    */
int   sut_save(const void* inst, void* sbmem);           /* sbmem: serial_obj_size bytes          */
int   sut_load(void* inst, const void* sbmem);
void  sut_serial_init(void* sbmem, int garbage);         /* construct buffer, optionally dirty it */
void  sut_serial_bytes(const void* sbmem, uint8_t* out); /* copy serial_bytes data bytes          */
int   sut_serial_compare(const void* a, const void* b); /* bit0: a == b, bit1: a != b (the buffers' own operators) */
int   sut_replay_enter(void* inst, int dest);
int   sut_replay_transition(void* inst, int dest);
int   sut_attach_logger(void* inst, int on);
int   sut_active_id(const void* inst);
int   sut_is_active_id(const void* inst, int id);
int   sut_is_active_tmpl(const void* inst, int idx);     /* isActive<St<idx>>()                   */
int   sut_is_active(const void* inst);                   /* manual: isActive(); automatic: -1     */
int   sut_previous(const void* inst, SutTrans* out);
const void* sut_context_addr(const void* inst);
uint64_t    sut_context_tag(const void* inst);
void        sut_context_counts(uint32_t* copies, uint32_t* moves);   /* how often a value context was copy- / move-constructed so far */
const void* sut_access_addr(void* inst, int idx);        /* &access<St<idx>>(); idx 255 = root    */

#ifdef __cplusplus
}
#endif
#endif
