// sim_mon.cpp — monitors: every clause of every claimed property as a predicate over the recorded
// history of one operation plus a small tracked state. The "expected" callback protocol used to
// parse an operation is the one the property statements spell out (C02/C03/C04/C05/C12/C11), not a
// re-implementation of the engine: where a statement is silent the parser accepts either behaviour.
#include "sim_world.hpp"
#include <stdio.h>
#include <map>
#include <set>

namespace {

std::string S(int v) { return std::to_string(v); }
std::string sid(int v) { return v == SUT_INVALID ? std::string("root/invalid") : std::to_string(v); }
std::string tr_str(const SutTrans& t) {
	if (!t.valid) return "(none)";
	return "(" + sid(t.origin) + "->" + S(t.dest) + (t.has_payload ? ",payload " + S(t.payload[0] | t.payload[1] << 8) : "") + ")";
}
std::string req_str(const Req& r) {
	if (!r.has) return "(none)";
	return "(" + sid(r.origin) + "->" + S(r.dest) + (r.has_payload ? ",payload " + S(r.payload[0] | r.payload[1] << 8) : "") + ")";
}
std::string ev_str(const HookEv& e) { return std::string(METHOD_NAMES[e.method]) + "(" + sid(e.cls) + (e.inj ? ",inj" + S(e.inj) : "") + ")"; }

bool task_eq(const SutTask& a, const SutTask& b) {
	return a.origin == b.origin && a.dest == b.dest && a.has_payload == b.has_payload &&
		(!a.has_payload || memcmp(a.payload, b.payload, g_info->payload_vsize) == 0);
}

int flavour_of(int method) {
	switch (method) {
	case M_ENTRY_GUARD: case M_EXIT_GUARD: return CF_GUARD;
	case M_ENTER: case M_REENTER: case M_EXIT: return CF_PLAN;
	case M_QUERY: return CF_CONST;
	default: return CF_FULL;
	}
}
enum { ORD_PRE, ORD_POST, ORD_ANY };
bool is_phase_method(int m) { return m == M_PRE_UPDATE || m == M_UPDATE || m == M_POST_UPDATE || m == M_PRE_REACT || m == M_REACT || m == M_POST_REACT || m == M_QUERY; }
int order_of(int method) {
	switch (method) {
	case M_ENTRY_GUARD: case M_ENTER: case M_REENTER: case M_PRE_UPDATE: case M_UPDATE: case M_PRE_REACT: case M_REACT: return ORD_PRE;
	case M_EXIT: case M_POST_UPDATE: case M_POST_REACT: return ORD_POST;
	default: return ORD_ANY;
	}
}

struct Ctx {
	const Req* pending = 0;      // guards: the request under evaluation (null = an empty transition)
	const Req* current = 0;      // plan/full/guard controls: the transition accepted so far
	bool cancelled = false;
	int expect_active = -1;      // what the machine must report as active during this delivery (-1 none)
	bool skip_active = false;    // the root's own enter()/exit()
	bool phase = false;          // a phase callback of update()/react()
	const char* prop = "C05"; const char* clause = "phase-order";
};

// serialization canonical-form tables, per execution (reset by check_static at the start of every execution, so that a
// violation never depends on an earlier run and always replays from its own case)
std::map<std::vector<uint8_t>, int> g_bytes_to_activity;
std::map<int, std::vector<uint8_t> > g_activity_to_bytes;

struct Mon {
	Node& n; Tracked& T; OpExec& x; int node_index; std::vector<Violation>& out;
	size_t hi = 0;
	std::vector<LogEv> exp;          // expected records; ctx_ok == 2 marks an optional one
	bool stop = false;
	std::set<std::string> seen;
	bool cycle_fail_call = false, cycle_succ_call = false, own_fail = false, other_fail = false;
	const unsigned N, C, L;
	const bool plans, history, root_outcomes;
	int expect_result = -1;          // result the next view must report for the previous action
	bool logger_ops_effective = true;
	int last_method = -1, last_cls = -1;
	std::set<int> excused_groups;
	int group_seq = 0, undefined_group = 0;   // verbose builds: every delivery to a class without the callback is recorded exactly once
	bool limit_reached = false;
	uint8_t consumed_logs[32] = {0};
	const void* ev_addr = 0; bool ev_addr_set = false;

	Mon(Node& n_, OpExec& x_, int idx, std::vector<Violation>& o)
		: n(n_), T(n_.T), x(x_), node_index(idx), out(o), N(g_info->n_states), C(g_info->capacity), L(g_info->limit),
		  plans(g_info->f_plans), history(g_info->f_history),
		  root_outcomes(g_info->defines[SUT_INVALID][M_PLAN_SUCCEEDED] && g_info->defines[SUT_INVALID][M_PLAN_FAILED]) { logger_ops_effective = g_logger_mode == 0; }

	void viol(const char* prop, const char* clause, const std::string& msg) {
		std::string key = std::string(prop) + "/" + clause;
		if (!seen.insert(key).second) return;
		Violation v; v.prop = prop; v.clause = clause; v.msg = msg; v.op_index = x.op_index; v.node = node_index;
		out.push_back(v);
	}
	void structural(const char* prop, const char* clause, const std::string& msg) { viol(prop, clause, msg); stop = true; }

	const HookEv* peek() const { return hi < x.hooks.size() ? &x.hooks[hi] : 0; }
	bool peek_is(int method, int cls) const { const HookEv* e = peek(); return e && e->step == 0 && e->method == method && e->cls == cls; }

	void explog(int kind, int origin, int arg, size_t pos, bool optional = false, int group = 0) {
		if (!T.logger) { if (group > 0) excused_groups.insert(group); return; }   // one alternative position had no logger: the record may be absent
		LogEv l; l.grp = static_cast<uint16_t>(group); l.kind = static_cast<uint8_t>(kind); l.origin = static_cast<uint8_t>(origin); l.arg = static_cast<uint8_t>(arg); l.ctx_ok = optional ? 2 : 1; l.pos = static_cast<uint32_t>(pos);
		exp.push_back(l);
	}

	//---------------------------------------------------------------------------------------------
	void cmp_trans(const SutTrans& t, const Req* r, const char* what, const char* prop, const char* clause, const HookEv& e) {
		Req none; if (!r) r = &none;
		if (!r->has) {
			if (t.valid) {
				viol(prop, clause, std::string(what) + " seen in " + ev_str(e) + " is " + tr_str(t) + " but none is expected");
				if (r == &T.slot && T.last_consumed.has && t.dest == T.last_consumed.dest && t.origin == T.last_consumed.origin)
					viol("C02", "processed-request-is-consumed", "the request " + req_str(T.last_consumed) + " was already taken up by a processing round but is still outstanding in " + ev_str(e) + " (it would be applied again)");
			}
			return;
		}
		if (!t.valid || t.dest != r->dest) { viol(prop, clause, std::string(what) + " seen in " + ev_str(e) + " is " + tr_str(t) + ", expected " + req_str(*r)); return; }
		if (t.origin != r->origin) viol("C06", "request-origin", std::string(what) + " seen in " + ev_str(e) + " has origin " + sid(t.origin) + ", the request was made by " + sid(r->origin));
		if (t.origin != r->origin && r->from_task) viol("C08", "request-carries-task-origin", std::string(what) + " seen in " + ev_str(e) + " for the request issued by plan task " + req_str(*r) + " names " + sid(t.origin) + " as requester instead of the task's origin");
		if (r->from_task && ((t.has_payload != 0) != r->has_payload || (r->has_payload && memcmp(t.payload, r->payload, g_info->payload_vsize) != 0)))
			viol("C08", "request-carries-task-payload", std::string(what) + " seen in " + ev_str(e) + " for the request issued by plan task " + req_str(*r) + " does not carry exactly the task's payload");
		if ((t.has_payload != 0) != r->has_payload) viol("C07", "payload-presence", std::string(what) + " seen in " + ev_str(e) + (t.has_payload ? " exposes a payload although the request had none" : " exposes no payload although the request carried one"));
		else if (r->has_payload && memcmp(t.payload, r->payload, g_info->payload_vsize) != 0) viol("C07", "payload-value", std::string(what) + " seen in " + ev_str(e) + " carries a payload different from the one supplied with " + req_str(*r));
	}

	void check_plan_view(const PlanSnap& p, const std::string& where) {
		if (!p.available) return;
		if (p.overflow) { viol("C10", "iteration-terminates", "iterating the plan in " + where + " visited more than 255 tasks"); return; }
		bool same = p.tasks.size() == T.mirror.size();
		for (size_t i = 0; same && i < p.tasks.size(); ++i) same = task_eq(p.tasks[i], T.mirror[i]);
		if (!same) viol("C10", "iterate-equals-appended", "plan iterated in " + where + " has " + S(static_cast<int>(p.tasks.size())) + " task(s) and differs from the " + S(static_cast<int>(T.mirror.size())) + " task(s) appended and not yet removed");
		if (p.nonempty != !T.mirror.empty()) viol("C10", "emptiness-consistent", "plan emptiness test in " + where + " says " + (p.nonempty ? "non-empty" : "empty") + " with " + S(static_cast<int>(T.mirror.size())) + " task(s) outstanding");
		if (same && p.nonempty && !T.mirror.empty()) {
			if (p.first_o != T.mirror.front().origin || p.first_d != T.mirror.front().dest) viol("C10", "first-last-consistent", "plan.first() in " + where + " is not the first appended task");
			if (p.last_o != T.mirror.back().origin || p.last_d != T.mirror.back().dest) viol("C10", "first-last-consistent", "plan.last() in " + where + " is not the last appended task");
		}
	}

	void check_view(const HookEv& e, const Ctx& cx) {
		// --- C06 / C14: own id, dispatch target
		if (e.state_id != e.cls) {
			viol("C06", "own-id", "control.stateId() is " + sid(e.state_id) + " inside " + ev_str(e));
			viol("C14", "dispatch-id", "callback of the class declared at position " + sid(e.cls) + " ran with the engine's state id " + sid(e.state_id));
		}
		if (e.inj == 0) {
			const void* acc = sut_access_addr(n.inst, e.cls);
			if (acc && acc != e.self) viol("C14", "access-object", "access<T>() does not return the object whose " + ev_str(e) + " ran");
		}
		// --- C06: context
		const void* ca = sut_context_addr(n.inst);
		if (e.ctx_a != ca || e.ctx_b != ca || e.ctx_tag != sut_context_tag(n.inst)) viol("C06", "context", "control.context()/_() inside " + ev_str(e) + " is not the machine's own context object");
		// --- C06: request
		cmp_trans(e.request, &T.slot, "control.request()", "C06", "request-view", e);
		// --- guards: pending + current; others: current
		if (e.has_pending) {
			const size_t nv = out.size();
			cmp_trans(e.pending, cx.pending, "pendingTransition()", "C03", "pending-is-request", e);
			if (out.size() > nv) viol("C03", "pending-is-request", "guards in " + ev_str(e) + " do not see the request under evaluation " + (cx.pending ? req_str(*cx.pending) : std::string("(none)")) + " as their pending transition (they see " + tr_str(e.pending) + ")");
			if (out.size() > nv) viol("C06", "pending-view", "pendingTransition() inside " + ev_str(e) + " is " + tr_str(e.pending) + ", the request under evaluation in this round is " + (cx.pending ? req_str(*cx.pending) : std::string("(none)")));
		}
		if (e.has_current) cmp_trans(e.current, cx.current, "currentTransition()", "C06", "current-view", e);
		if (e.has_current && !(cx.current && cx.current->has) && !e.current.valid && (e.current.has_payload || e.current.origin != SUT_INVALID)) {
			viol("C06", "current-view", "nothing has been accepted yet in this step, but currentTransition() inside " + ev_str(e) + " still shows " + (e.current.has_payload ? "a payload" : "an origin (" + sid(e.current.origin) + ")") + " left over from an earlier step");
			if (e.current.has_payload) viol("C07", "payload-presence", "currentTransition() inside " + ev_str(e) + " exposes the payload of an earlier request although no transition has been accepted in this step");
		}
		// --- the transition history as seen through a control: stable (= what the last step left) in phase callbacks and query
		if (e.has_previous && (cx.phase || e.method == M_QUERY) && T.prev_known) {
			const Req& r = T.prev; const SutTrans& t = e.previous;
			auto same = [&](const Req& q) { return q.has ? (t.valid && t.dest == q.dest && t.origin == q.origin && (t.has_payload != 0) == q.has_payload && (!q.has_payload || memcmp(t.payload, q.payload, g_info->payload_vsize) == 0)) : !t.valid; };
			if (!same(r) && !(T.prev_alt_ok && same(T.prev_alt))) {
				viol("C11", "history-visible-in-controls", "control.previousTransitions() inside " + ev_str(e) + " is " + tr_str(t) + " but the last step applied " + req_str(r));
				if (r.has_payload || t.has_payload) viol("C07", "payload-in-history", "control.previousTransitions() inside " + ev_str(e) + " shows " + tr_str(t) + ", the transition applied by the last step was " + req_str(r));
			}
		}
		// --- C06: isActive(id) for every id agrees with the machine; C01: machine names the open state
		int cnt = 0, which = -1;
		for (unsigned i = 0; i < N; ++i) if (bit_get(e.active, i)) { ++cnt; which = static_cast<int>(i); }
		int m = e.machine_active == SUT_INVALID ? -1 : e.machine_active;
		if (!((m < 0 && cnt == 0) || (m >= 0 && cnt == 1 && which == m)))
		{
			viol("C06", "isactive-agrees", "inside " + ev_str(e) + " control.isActive(id) is true for " + (cnt == 1 ? "id " + S(which) : S(cnt) + " ids") + " while the machine reports active state " + (m < 0 ? std::string("none") : S(m)));
			if (cnt != (m < 0 ? 0 : 1)) viol("C01", "exactly-one-active", "inside " + ev_str(e) + " user code sees " + S(cnt) + " states reported active through control.isActive(id)");
		}
		if (e.active_invalid != e.machine_active_invalid)
			viol("C06", "isactive-agrees", "inside " + ev_str(e) + " control.isActive(id) for the root's id is " + (e.active_invalid ? "true" : "false") + " while the machine's isActive(id) says " + (e.machine_active_invalid ? "true" : "false"));
		if (!e.active_tmpl_ok) {
			viol("C06", "isactive-agrees", "control.isActive<T>() disagrees with control.isActive(id) inside " + ev_str(e));
			viol("C01", "exactly-one-active", "inside " + ev_str(e) + " control.isActive<T>() names a different set of active states than control.isActive(id)");
		}
		if (e.machine_is_active >= 0 && (e.machine_is_active != 0) != (m >= 0))
			viol("C01", "inactive-reports-none", "inside " + ev_str(e) + " the machine's isActive() is " + (e.machine_is_active ? "true" : "false") + " while activeStateId() names " + (m < 0 ? std::string("no state") : "state " + S(m)));
		if (!cx.skip_active && m != cx.expect_active && e.method == M_ENTER && e.cls != SUT_INVALID)
			viol("C14", "transition-activates-requested-state", "inside " + ev_str(e) + " the machine reports active state " + (m < 0 ? std::string("none") : S(m)) + ", not the state whose enter() is running");
		if (!cx.skip_active && m != cx.expect_active)
			viol("C01", "active-names-open", "inside " + ev_str(e) + " the machine reports active state " + (m < 0 ? std::string("none") : S(m)) + " but the state whose enter() ran last without exit() is " + (cx.expect_active < 0 ? std::string("none") : S(cx.expect_active)));
		// --- C10: plan as seen through this control
		if (e.flavour != CF_CONST && plans) {
			check_plan_view(e.plan, ev_str(e));
			if (!e.plan_m_same) viol("C10", "iterate-equals-appended", "mutable and read-only plan views differ inside " + ev_str(e));
		}
		// --- result of the previous action
		if (e.step > 0 && (e.last_result & 0x80)) viol("C10", "views-see-current-plan", "a read-only plan view obtained before a plan edit inside " + ev_str(e) + " does not show the plan as it is after the edit");
		if (e.step > 0 && expect_result >= 0 && (e.last_result & 0x7f) != expect_result)
			viol("C10", "append-result", "plan edit inside " + ev_str(e) + " returned " + S(e.last_result & 0x7f) + ", expected " + S(expect_result) + " with " + S(static_cast<int>(T.mirror.size())) + " task(s) of capacity " + S(static_cast<int>(C)));
		expect_result = -1;
		// --- C05: the caller's own event object
		if (e.ev_type != SUT_INVALID) {
			if (x.kind == OP_REACT || x.kind == OP_QUERY) {
				bool ok = e.ev_type == x.a && (e.ev_type == 2 ? (e.ev_value & 0xffffffffu) == (static_cast<uint64_t>(x.b) & 0xffffffffu) : e.ev_value == static_cast<uint64_t>(x.b));
				if (!ok) viol("C05", "same-event-object", ev_str(e) + " received an event with different type or value than the caller's");
			}
			if (!ev_addr_set) { ev_addr = e.ev_addr; ev_addr_set = true; }
			else if (ev_addr != e.ev_addr) viol("C05", "same-event-object", ev_str(e) + " received a different event object than the earlier callbacks of this call");
		}
	}

	void report(int id, bool success, const HookEv& e, const Ctx& cx) {
		if (success) { bit_set(T.mayS, static_cast<unsigned>(id), true); cycle_succ_call = true; if (cx.phase && e.cls == T.open && id == T.open) bit_set(T.mustS, static_cast<unsigned>(id), true); }
		else { bit_set(T.mayF, static_cast<unsigned>(id), true); cycle_fail_call = true; if (cx.phase && e.cls == T.open && id == T.open) own_fail = true; if (cx.phase && e.cls == T.open && id != T.open) other_fail = true; }
		explog(LOG_TASK_STATUS, id, success ? 0 : 1, hi + 1);
		g_stats.hit(success ? "reports_success" : "reports_failure");
	}

	// a state that exits withdraws its own reports (the engine's design: exit clears the state's task status); after that
	// neither a success nor a failure of that state is outstanding any more
	void forget_reports(int st) {
		if (st < 0) return;
		bit_set(T.mayS, static_cast<unsigned>(st), false); bit_set(T.mayF, static_cast<unsigned>(st), false); bit_set(T.mustS, static_cast<unsigned>(st), false);
	}

	void mirror_append(const SutAction& a) {
		SutTask t; memset(&t, 0, sizeof(t)); t.origin = a.a; t.dest = a.b; t.has_payload = a.kind == A_PLAN_APPEND_WITH; if (t.has_payload) memcpy(t.payload, a.payload, SUT_MAX_PAYLOAD);
		if (T.mirror.size() < C) { T.mirror.push_back(t); T.task_added = true; expect_result = 1; g_stats.hit("plan_appends"); if (T.mirror.size() == C) g_stats.hit("plan_at_capacity"); }
		else { expect_result = 0; mark_nontrivial("plan_appends_refused_at_capacity"); }
	}
	// plan().clear() also withdraws the reports made so far: the must-ledgers (subset side) are reset, the may-ledgers (superset side) stay
	void mirror_clear_user() { T.mirror.clear(); memset(T.mustS, 0, 32); own_fail = false; other_fail = false; }

	void apply_action(const HookEv& e, Ctx& cx) {
		const SutAction& a = e.action;
		switch (a.kind) {
		case A_NONE: break;
		case A_CANCEL: cx.cancelled = true; explog(LOG_CANCELLED, e.state_id, 0, hi + 1); mark_nontrivial("guard_vetoes"); break;
		case A_CHANGE_TO: case A_CHANGE_WITH:
			{
				// aliasing changeWith: the payload passed is the outstanding request's own; the new request must carry that value
				const bool alias = a.kind == A_CHANGE_WITH && a.mask[29] && T.slot.has && T.slot.has_payload;
				uint8_t keep[SUT_MAX_PAYLOAD]; memcpy(keep, T.slot.payload, SUT_MAX_PAYLOAD);
				T.slot.has = true; T.slot.from_task = false; T.slot.origin = e.state_id; T.slot.dest = a.a; T.slot.has_payload = a.kind == A_CHANGE_WITH;
				memset(T.slot.payload, 0, SUT_MAX_PAYLOAD); if (T.slot.has_payload) memcpy(T.slot.payload, alias ? keep : a.payload, SUT_MAX_PAYLOAD);
				if (alias) mark_nontrivial("aliasing_change_with");
			}
			explog(LOG_TRANSITION, e.state_id, a.a, hi + 1);
			if (e.flavour == CF_GUARD) mark_nontrivial("guard_redirects"); else g_stats.hit("callback_requests");
			break;
		case A_SUCCEED_SELF: report(e.state_id, true, e, cx); break;
		case A_FAIL_SELF: report(e.state_id, false, e, cx); break;
		case A_SUCCEED: report(a.a, true, e, cx); break;
		case A_FAIL: report(a.a, false, e, cx); break;
		case A_PLAN_APPEND: case A_PLAN_APPEND_WITH: mirror_append(a); break;
		case A_PLAN_REMOVE_NTH:
			if (a.a < T.mirror.size()) { T.mirror.erase(T.mirror.begin() + a.a); expect_result = 1; g_stats.hit("plan_iterator_removals"); } else expect_result = 0;
			break;
		case A_PLAN_CLEAR: mirror_clear_user(); expect_result = 1; g_stats.hit("plan_clears"); break;
		case A_PLAN_WALK: break;   // checked when the next view arrives (needs the visited list)
		case A_LOGGER_ATTACH: if (logger_ops_effective) { T.logger = true; mark_nontrivial("logger_attached_mid_call"); } break;
		case A_LOGGER_DETACH: if (logger_ops_effective) { T.logger = false; mark_nontrivial("logger_detached_mid_call"); } break;
		default: break;
		}
	}

	void check_walk(const std::vector<SutTask>& visited, const uint8_t* mask, const std::string& where) {
		bool same = visited.size() == T.mirror.size();
		for (size_t i = 0; same && i < visited.size(); ++i) same = task_eq(visited[i], T.mirror[i]);
		if (!same) viol("C10", "remove-while-iterating", "walking the plan while removing in " + where + " visited " + S(static_cast<int>(visited.size())) + " task(s), the plan held " + S(static_cast<int>(T.mirror.size())));
		std::vector<SutTask> kept;
		for (size_t i = 0; i < T.mirror.size(); ++i) if (!(mask[i >> 3] & (1u << (i & 7)))) kept.push_back(T.mirror[i]); else g_stats.hit("plan_iterator_removals");
		T.mirror.swap(kept);
		g_stats.hit("plan_walks");
	}

	// one invocation = the step-0 view plus one further view after every action performed in it
	void invocation(Ctx& cx) {
		const SutAction* prev = 0;
		do {
			const HookEv& e = x.hooks[hi];
			if (prev && prev->kind == A_PLAN_WALK) check_walk(e.walk, prev->mask, ev_str(e));
			check_view(e, cx);
			apply_action(e, cx);
			prev = &e.action;
			++hi;
		} while (hi < x.hooks.size() && x.hooks[hi].step != 0);
	}

	// a delivery of `method` to class `cls`: its injections and the class itself, each exactly once
	bool delivery(int method, int cls, Ctx& cx) {
		if (stop) return false;
		if (!defines(cls, method)) {
			// a delivery to a class that defines no such callback: invisible to the hooks. A method record naming it at
			// this very moment "corresponds to a delivery to that state" (verbose builds always emit it, plain logging
			// builds emit it for the react/query family), so it is tolerated but not required.
			if (cls >= 0 && cls <= SUT_INVALID) explog(LOG_METHOD, cls, method, hi, true, undefined_group ? undefined_group : ++group_seq);
			return true;
		}
		const int k = (method == M_PLAN_SUCCEEDED || method == M_PLAN_FAILED) ? 0 : n_inj(cls);
		explog(LOG_METHOD, cls, method, hi);
		const int ord = order_of(method);
		uint32_t seen_mask = 0;
		for (int j = 0; j <= k; ++j) {
			const HookEv* e = peek();
			if (!e || e->step != 0 || e->method != method || e->cls != cls) {
				std::string got = e ? ev_str(*e) : std::string("nothing");
				if (j == 0) {
					if (e && e->flavour == CF_GUARD && (x.kind == OPX_REPLAY_MSG || x.kind == OP_REPLAY_TRANSITION || x.kind == OP_LOAD)) {
						viol(x.kind == OP_LOAD ? "C12" : "C11", x.kind == OP_LOAD ? "load-consults-no-guards" : "replay-consults-no-guards", "guard " + ev_str(*e) + " was consulted although load/replay apply transitions without guards");
						viol("C03", "no-guards-on-replay-load", "guard " + ev_str(*e) + " consulted during load/replay");
					}
					if (e && e->step == 0 && e->method == method && e->cls != cls)
						viol("C14", "callbacks-reach-the-addressed-state", std::string(METHOD_NAMES[method]) + " addressed to state " + sid(cls) + " ran on the class declared at position " + sid(e->cls));
					{
						const bool lc_exp = method == M_ENTER || method == M_EXIT || method == M_REENTER;
						const bool lc_got = e && (e->method == M_ENTER || e->method == M_EXIT || e->method == M_REENTER);
						if (lc_got && T.slot.has && e->cls == T.slot.dest && (e->method == M_ENTER || e->method == M_REENTER))
							viol("C04", "leftover-not-applied-blindly", "the request left over at the substitution limit " + req_str(T.slot) + " was applied (" + ev_str(*e) + ") without passing guards");
						if (lc_got && e->cls != SUT_INVALID && static_cast<int>(e->cls) != T.open && static_cast<int>(e->cls) != cls)
							viol("C14", "callbacks-reach-the-addressed-state", ev_str(*e) + " ran although state " + sid(e->cls) + " is neither the active state nor the state being addressed (" + METHOD_NAMES[method] + "(" + sid(cls) + ") was due)");
						if (lc_exp || lc_got) viol("C01", "lifecycle-pairing", std::string(METHOD_NAMES[method]) + "(" + sid(cls) + ") was due (state " + (T.open < 0 ? std::string("none") : S(T.open)) + " is the one whose enter() ran last without exit()), but " + got + " ran");
					}
					structural(cx.prop, cx.clause, std::string("expected ") + METHOD_NAMES[method] + "(" + sid(cls) + "), got " + got); return false;
				}
				viol("C15", "each-once", std::string(METHOD_NAMES[method]) + "(" + sid(cls) + ") reached only " + S(j) + " of the " + S(k + 1) + " classes (injections + state)");
				if (method == M_ENTER || method == M_EXIT || method == M_REENTER) viol("C01", "lifecycle-pairing", std::string(METHOD_NAMES[method]) + " of state " + sid(cls) + " reached only " + S(j) + " of its " + S(k + 1) + " classes: an injected base is left with an unpaired enter()/exit()");
				if (method == M_ENTRY_GUARD || method == M_EXIT_GUARD) viol("C03", "guards-consulted", std::string(METHOD_NAMES[method]) + " of state " + sid(cls) + " was consulted only in part: " + S(j) + " of its " + S(k + 1) + " guard callbacks (injections + state) ran");
				if (is_phase_method(method)) viol("C05", "each-phase-callback-once", std::string(METHOD_NAMES[method]) + " of state " + sid(cls) + " ran for only " + S(j) + " of the " + S(k + 1) + " classes the state is built from (each phase callback runs exactly once)");
				if ((method == M_ENTER || method == M_EXIT || method == M_REENTER) && (x.kind == OP_LOAD || x.kind == OP_REPLAY_TRANSITION || x.kind == OPX_REPLAY_MSG))
					viol(cx.prop, cx.clause, std::string(METHOD_NAMES[method]) + " of state " + sid(cls) + " reached only " + S(j) + " of its " + S(k + 1) + " classes");
				return true;
			}
			int want = ord == ORD_PRE ? (j < k ? j + 1 : 0) : ord == ORD_POST ? (j == 0 ? 0 : k - j + 1) : -1;
			if (k == 0) want = own_inj(cls);
			if (want >= 0 && e->inj != want) viol("C15", "injection-order", std::string(METHOD_NAMES[method]) + "(" + sid(cls) + "): position " + S(j) + " ran " + (e->inj ? "injection " + S(e->inj) : std::string("the state's own callback")) + ", expected " + (want ? "injection " + S(want) : std::string("the state's own callback")));
			if (seen_mask & (1u << e->inj)) viol("C15", "each-once", std::string(METHOD_NAMES[method]) + "(" + sid(cls) + ") ran " + (e->inj ? "injection " + S(e->inj) : std::string("the state's own callback")) + " twice in one delivery");
			if ((seen_mask & (1u << e->inj)) && e->inj == 0 && is_phase_method(method))
				viol("C05", "each-phase-callback-once", std::string(METHOD_NAMES[method]) + " of state " + sid(cls) + " ran twice in one " + (method == M_QUERY ? "query()" : "cycle") + " (each phase callback runs exactly once)");
			seen_mask |= 1u << e->inj;
			invocation(cx);
		}
		if (k) g_stats.hit("injected_deliveries");
		last_method = method; last_cls = cls;
		return true;
	}

	//---------------------------------------------------------------------------------------------
	// the processing step shared by update()/react()/immediateChange*()
	void apply_survivor(const Req& survivor) {
		if (!survivor.has) return;
		Ctx cx; cx.current = &survivor; cx.prop = "C02"; cx.clause = "applied-by-exit-enter";
		if (static_cast<int>(survivor.dest) != T.open) {
			int old = T.open;
			cx.expect_active = old; delivery(M_EXIT, old, cx);
			forget_reports(old);
			T.open = survivor.dest;
			cx.expect_active = T.open; delivery(M_ENTER, T.open, cx);
			g_stats.hit("transitions_applied");
		} else {
			cx.expect_active = T.open; delivery(M_REENTER, T.open, cx);
			g_stats.hit("reenters");
		}
	}

	// a request made from inside a guard was discarded without a guard round although it differs (origin or payload) from
	// the transition accepted so far: the machine goes on to show the superseded request's origin/payload
	void dropped_request(const Req& R, const Req& survivor) {
		viol("C03", "redirect-evaluated-by-fresh-round", "request " + req_str(R) + " made from inside a guard was neither evaluated by a fresh round of guards nor cancelled; the earlier " + req_str(survivor) + " was applied in its place");
		const bool pdiff = R.has_payload != survivor.has_payload || (R.has_payload && memcmp(R.payload, survivor.payload, g_info->payload_vsize) != 0);
		if (pdiff) viol("C07", "payload-of-latest-surviving-request", "the most recent uncancelled request " + req_str(R) + " was dropped: enter()/previousTransition() show the payload of the superseded request " + req_str(survivor));
		if (R.origin != survivor.origin || pdiff) viol("C11", "history-origin", "the most recent uncancelled request " + req_str(R) + " was dropped: previousTransition() describes the superseded request " + req_str(survivor));
	}

	void processing() {
		Req survivor; unsigned rounds = 0; bool ambiguous = false; Req alt; bool any_cancel = false;
		while (T.slot.has && rounds < L && !stop) {
			Req R = T.slot;
			const bool vis_exit = defines(T.open, M_EXIT_GUARD), vis_entry = defines(R.dest, M_ENTRY_GUARD);
			// observed de-duplication of the unchanged engine: a re-request of the destination already accepted from an
			// external payload-free request may be absorbed without a round. Nothing else may skip its guards.
			const bool absorbable = survivor.has && survivor.dest == R.dest && survivor.origin == SUT_INVALID && !survivor.has_payload;
			{
				const bool round_starts = vis_exit ? peek_is(M_EXIT_GUARD, T.open) : vis_entry ? peek_is(M_ENTRY_GUARD, R.dest) : false;
				if (!vis_exit && !vis_entry) { if (absorbable) { ambiguous = true; alt = survivor; } }
				else if (!round_starts) {
					// the round that should evaluate R does not start: tolerated only as the de-duplication described above
					if (!absorbable) {
						if (survivor.has && survivor.dest == R.dest) dropped_request(R, survivor);
						else {
							viol("C02", "latest-request-is-processed", "the outstanding request " + req_str(R) + " was neither evaluated by guards nor applied in this processing step");
							if (rounds > 0) viol("C03", "redirect-evaluated-by-fresh-round", "request " + req_str(R) + " made from inside a guard was not evaluated by a fresh round of guards");
						}
					}
					T.last_consumed = R; T.slot.clear(); ++rounds; g_stats.hit("duplicate_requests_absorbed"); continue;
				}
			}
			T.last_consumed = R; T.slot.clear(); ++rounds;
			Ctx cx; cx.pending = &R; cx.current = &survivor; cx.expect_active = T.open; cx.prop = "C03"; cx.clause = "guards-consulted";
			if (rounds >= 2) g_stats.hit("guard_rounds_2plus");
			if (!delivery(M_EXIT_GUARD, T.open, cx)) return;
			if (!cx.cancelled) { if (!delivery(M_ENTRY_GUARD, R.dest, cx)) return; }
			else g_stats.hit("exit_guard_vetoes");
			if (!cx.cancelled) survivor = R;
			else { any_cancel = true; if (rounds >= 2 && survivor.has) mark_nontrivial("veto_after_survivor"); }
		}
		if (T.slot.has && rounds >= L) mark_nontrivial("substitution_limit_hits");
		limit_reached = rounds >= L;
		if (stop) return;
		// C03/C04: no further guard may follow; what follows is exit/enter or reenter of the last survivor, or nothing
		if (const HookEv* e = peek()) if (e->flavour == CF_GUARD) {
			if (rounds >= L) structural("C04", "rounds-within-limit", "a further guard round (" + ev_str(*e) + ") after " + S(static_cast<int>(rounds)) + " rounds with substitution limit " + S(static_cast<int>(L)));
			else structural("C03", "guards-consulted", "unexpected guard " + ev_str(*e) + " although no request is outstanding");
			return;
		}
		const size_t before = hi;
		apply_survivor(survivor);
		if (stop && hi == before) {
			// the lifecycle callbacks that followed are not those of the last surviving request
			const HookEv* e = peek();
			if (rounds >= L) viol("C04", "limit-ends-in-a-request-that-passed", "the substitution limit was reached after " + S(static_cast<int>(rounds)) + " rounds and the call did not end in the last request that passed its guards " + req_str(survivor) + (e ? ": " + ev_str(*e) + " ran" : ": nothing ran"));
			if (any_cancel) viol("C03", "fallback-to-last-survivor", "after a vetoed round the machine did not fall back to the last request that survived its guards " + req_str(survivor) + (e ? ": " + ev_str(*e) + " ran" : ": nothing ran"));
			if (e && (e->method == M_ENTER || e->method == M_EXIT || e->method == M_REENTER) && survivor.has)
				viol("C14", "transition-activates-requested-state", "the surviving request names state " + S(survivor.dest) + " but " + ev_str(*e) + " ran");
		}
		T.prev = survivor; T.prev_alt_ok = ambiguous; if (ambiguous) T.prev_alt = alt;
	}

	//---------------------------------------------------------------------------------------------
	void plan_step() {
		if (!plans || stop) return;
		const int a = T.open;
		const bool fail_out = cycle_fail_call || (a >= 0 && bit_get(T.mayF, static_cast<unsigned>(a)));
		const bool succ_out = cycle_succ_call || (a >= 0 && bit_get(T.mayS, static_cast<unsigned>(a)));
		if (other_fail && !own_fail && !cycle_succ_call && !T.mirror.empty()) g_stats.hit("failures_of_other_states_reported_by_active_state");
		const HookEv* nx = peek();
		const bool head_must_fire = !T.mirror.empty() && a >= 0 && T.mirror[0].origin == a && bit_get(T.mustS, static_cast<unsigned>(a)) && !cycle_fail_call && !bit_get(T.mayF, static_cast<unsigned>(a));
		// a plan outcome is seen as a callback of the root head, or (machines whose root defines no such callback, verbose
		// build, logger attached throughout) as the verbose method record of the delivery
		int out_method = -1; bool via_record = false;
		if (nx && nx->step == 0 && (nx->method == M_PLAN_FAILED || nx->method == M_PLAN_SUCCEEDED) && nx->cls == SUT_INVALID) out_method = nx->method;
		else if (g_case_vlog && T.logger) {
			for (size_t i = 0; i < x.logs.size(); ++i) {
				const LogEv& l = x.logs[i];
				if (l.pos == hi && l.kind == LOG_METHOD && l.origin == SUT_INVALID && (l.arg == M_PLAN_FAILED || l.arg == M_PLAN_SUCCEEDED) && !defines(SUT_INVALID, l.arg) && !bit_get(consumed_logs, static_cast<unsigned>(i < 255 ? i : 255))) {
					out_method = l.arg; via_record = true; if (i < 255) bit_set(consumed_logs, static_cast<unsigned>(i), true); break;
				}
			}
		}
		if (out_method >= 0) {
			const bool failed = out_method == M_PLAN_FAILED;
			const size_t nviol = out.size();
			if (head_must_fire) viol("C08", "head-task-fires", std::string("the first task's origin is active and reported success in this cycle without failure reports, but ") + METHOD_NAMES[out_method] + "() was delivered and the task did not fire");
			if (failed && !fail_out) viol("C09", "planFailed-needs-failure", "planFailed() delivered in a cycle without any outstanding task failure");
			if (!failed && !succ_out) viol("C09", "planSucceeded-needs-success", "planSucceeded() delivered in a cycle without any outstanding success");
			if (!failed && !T.mirror.empty()) viol("C09", "planSucceeded-needs-empty-plan", "planSucceeded() delivered while " + S(static_cast<int>(T.mirror.size())) + " task(s) remain");
			if (!T.task_added) viol("C09", "outcome-needs-plan", std::string(METHOD_NAMES[out_method]) + "() delivered on a machine to which no task has been added since activation");
			Ctx cx; cx.expect_active = a; cx.prop = "C09"; cx.clause = "one-outcome-per-cycle";
			if (!via_record) delivery(out_method, SUT_INVALID, cx);
			else {
				explog(LOG_METHOD, SUT_INVALID, out_method, hi);
				// the record is all there is to see: if it contradicts what the reports warrant, the record is (also) what is wrong
				if (out.size() > nviol) viol("C16", "method-record", std::string("the verbose method record says ") + METHOD_NAMES[out_method] + "() was delivered to the root, which the task reports of this cycle do not warrant");
				g_stats.hit("plan_outcomes_seen_through_verbose_records");
			}
			T.mirror.clear(); memset(T.mayS, 0, 32); memset(T.mayF, 0, 32); memset(T.mustS, 0, 32);
			mark_nontrivial(failed ? "plan_failed_delivered" : "plan_succeeded_delivered");
			if (const HookEv* e2 = peek()) if (e2->method == M_PLAN_FAILED || e2->method == M_PLAN_SUCCEEDED) structural("C09", "one-outcome-per-cycle", "a second plan outcome callback in one cycle");
			return;
		}
		if ((root_outcomes || (g_case_vlog && T.logger)) && !T.mirror.empty() && own_fail)
			viol("C09", "planFailed-on-own-failure", "the active state reported failure with a non-empty plan but planFailed() was not delivered in that cycle");
		if (!root_outcomes && g_case_vlog && T.logger && !T.mirror.empty() && own_fail)
			viol("C16", "verbose-records-every-delivery", "the active state reported failure with a non-empty plan, yet no verbose method record of planFailed() being delivered to the root appeared in that cycle");
		// the active state reporting the failure of another state's task: judged only in cycles without any success report
		if ((root_outcomes || (g_case_vlog && T.logger)) && !T.mirror.empty() && other_fail && !own_fail && !cycle_succ_call)
			viol("C09", "planFailed-on-reported-failure", "a callback of the active state reported a task failure (of another state) with a non-empty plan but planFailed() was not delivered in that cycle");
		// which tasks disappeared in the plan step?
		const PlanSnap* p1 = 0;
		if (nx) { if (nx->flavour != CF_CONST && nx->plan.available) p1 = &nx->plan; } else if (x.after.valid) p1 = &x.after.plan;
		if (!p1 || !p1->available) return;
		const std::vector<SutTask> P0 = T.mirror; const std::vector<SutTask>& P1 = p1->tasks;
		std::vector<size_t> fired;   // indices into P0, ascending
		{
			long i = static_cast<long>(P0.size()) - 1, j = static_cast<long>(P1.size()) - 1;
			std::vector<size_t> rev;
			for (; i >= 0; --i) { if (j >= 0 && task_eq(P0[static_cast<size_t>(i)], P1[static_cast<size_t>(j)])) --j; else rev.push_back(static_cast<size_t>(i)); }
			if (j >= 0) { viol("C08", "unfired-tasks-stay-in-order", "after the plan step the plan is not the previous plan minus the fired tasks, order preserved"); T.mirror = P1; return; }
			fired.assign(rev.rbegin(), rev.rend());
		}
		const bool head_should_fire = head_must_fire;
		if (!fired.empty()) {
			size_t prefix = 0; while (prefix < P0.size() && P0[prefix].origin == a) ++prefix;
			for (size_t f = 0; f < fired.size(); ++f) {
				const SutTask& t = P0[fired[f]];
				if (t.origin != a) viol("C08", "fires-only-for-active-origin", "task " + S(t.origin) + "->" + S(t.dest) + " fired while the active state is " + S(a));
				else if (fired[f] >= prefix) viol("C08", "no-jumping-ahead", "task " + S(t.origin) + "->" + S(t.dest) + " fired although an earlier task with a different origin is still ahead of it");
				explog(LOG_TRANSITION, t.origin, t.dest, hi);
				if (t.origin == t.dest) g_stats.hit("cyclic_tasks_fired");
				if (t.has_payload && g_info->payload_vsize >= 8) {
					// payload bytes are unique per appended task in an execution (sequence number + 48 random bits): the same task must never fire twice
					uint64_t key = 0; memcpy(&key, t.payload, g_info->payload_vsize < 8 ? g_info->payload_vsize : 8);
					if (!T.fired_keys.insert(key).second) viol("C08", "fires-once", "task " + S(t.origin) + "->" + S(t.dest) + " fired although it had already fired and been removed");
				}
			}
			if (a >= 0 && !bit_get(T.mayS, static_cast<unsigned>(a))) viol("C08", "fires-only-on-success", "a task of origin " + S(a) + " fired without an outstanding success report for that state");
			const SutTask& last = P0[fired.back()];
			T.slot.has = true; T.slot.from_task = true; T.slot.origin = last.origin; T.slot.dest = last.dest; T.slot.has_payload = last.has_payload != 0;
			memset(T.slot.payload, 0, SUT_MAX_PAYLOAD); if (last.has_payload) memcpy(T.slot.payload, last.payload, SUT_MAX_PAYLOAD);
			T.mirror = P1;
			if (a >= 0) { bit_set(T.mayS, static_cast<unsigned>(a), false); bit_set(T.mustS, static_cast<unsigned>(a), false); }
			mark_nontrivial("tasks_fired"); g_stats.hit("tasks_fired_total", fired.size());
			if (x.kind != OP_UPDATE && x.kind != OP_REACT) viol("C08", "fires-only-in-plan-step", "a plan task fired outside update()/react()");
		}
		if (head_should_fire && (fired.empty() || fired[0] != 0))
			viol("C08", "head-task-fires", "the first task's origin is active and reported success in this cycle without failure reports, but the task did not fire");
	}

	//---------------------------------------------------------------------------------------------
	void op_cycle(bool react) {
		const int a = T.open;
		Ctx cx; cx.expect_active = a; cx.phase = true; cx.prop = "C05"; cx.clause = "phase-order";
		const int pre = react ? M_PRE_REACT : M_PRE_UPDATE, mid = react ? M_REACT : M_UPDATE, post = react ? M_POST_REACT : M_POST_UPDATE;
		delivery(pre, SUT_INVALID, cx); delivery(pre, a, cx);
		delivery(mid, SUT_INVALID, cx); delivery(mid, a, cx);
		delivery(post, a, cx); delivery(post, SUT_INVALID, cx);
		if (stop) return;
		if (const HookEv* e = peek()) if (e->method >= M_PRE_UPDATE && e->method <= M_POST_REACT && e->method != M_QUERY)
			{ structural("C05", "phase-once", "extra phase callback " + ev_str(*e) + " after the six phase callbacks of this call"); return; }
		plan_step();
		processing();
		memset(T.mustS, 0, 32);
	}

	void op_query() {
		Ctx cx; cx.expect_active = T.open; cx.prop = "C05"; cx.clause = "query-root-and-active";
		// the statement does not order the two deliveries
		const int R = SUT_INVALID, a = T.open;
		const bool dr = defines(R, M_QUERY), da = defines(a, M_QUERY);
		if (dr && da) {
			if (peek_is(M_QUERY, a)) { delivery(M_QUERY, a, cx); delivery(M_QUERY, R, cx); }
			else { delivery(M_QUERY, R, cx); delivery(M_QUERY, a, cx); }
		} else if (dr) { undefined_group = ++group_seq; delivery(M_QUERY, a, cx); delivery(M_QUERY, R, cx); delivery(M_QUERY, a, cx); undefined_group = 0; }
		else if (da) { undefined_group = ++group_seq; delivery(M_QUERY, R, cx); delivery(M_QUERY, a, cx); delivery(M_QUERY, R, cx); undefined_group = 0; }
		else {
			// neither defines query: records (verbose) for root and state in either order
			const int gr = ++group_seq, ga = ++group_seq;
			undefined_group = gr; delivery(M_QUERY, R, cx); undefined_group = ga; delivery(M_QUERY, a, cx); undefined_group = gr; delivery(M_QUERY, R, cx); undefined_group = 0;
		}
	}

	void activation(int forced_dest /* -1 = normal activation with guards */) {
		if (T.active) { structural("C01", "activation-when-inactive", "harness: activation of an active machine"); return; }
		Req survivor; bool ambiguous = false; Req alt;
		if (forced_dest < 0) {
			Ctx cx; cx.expect_active = -1; cx.prop = "C04"; cx.clause = "activation-initial-guards";
			Req none;
			cx.pending = &none; cx.current = &none;
			delivery(M_ENTRY_GUARD, SUT_INVALID, cx);
			delivery(M_ENTRY_GUARD, 0, cx);
			unsigned rounds = 0;
			while (T.slot.has && rounds < L && !stop) {
				Req R = T.slot;
				const bool vis_root = defines(SUT_INVALID, M_ENTRY_GUARD), vis_entry = defines(R.dest, M_ENTRY_GUARD);
				const bool absorbable = survivor.has && survivor.dest == R.dest && survivor.origin == SUT_INVALID && !survivor.has_payload;
				if (survivor.has && survivor.dest == R.dest) {
					const bool round_starts = vis_root ? peek_is(M_ENTRY_GUARD, SUT_INVALID) : vis_entry ? peek_is(M_ENTRY_GUARD, R.dest) : false;
					if (!vis_root && !vis_entry) { if (absorbable) { ambiguous = true; alt = survivor; } }
					else if (!round_starts) {
						if (!absorbable) dropped_request(R, survivor);
						T.slot.clear(); ++rounds; g_stats.hit("duplicate_requests_absorbed"); continue;
					}
				}
				T.slot.clear(); ++rounds;
				Ctx c2; c2.pending = &R; c2.current = &survivor; c2.expect_active = -1; c2.prop = "C04"; c2.clause = "activation-redirect-rounds";
				if (!delivery(M_ENTRY_GUARD, SUT_INVALID, c2)) return;
				if (!delivery(M_ENTRY_GUARD, R.dest, c2)) return;
				survivor = R;
				mark_nontrivial("activation_redirects");
			}
			if (T.slot.has && rounds >= L) mark_nontrivial("substitution_limit_hits");
			if (stop) return;
			if (const HookEv* e = peek()) if (e->flavour == CF_GUARD) { structural("C04", "rounds-within-limit", "activation: a further guard (" + ev_str(*e) + ") after " + S(static_cast<int>(rounds)) + " redirections with substitution limit " + S(static_cast<int>(L))); return; }
			T.prev = survivor; T.prev_alt_ok = ambiguous; if (ambiguous) T.prev_alt = alt;
		} else {
			survivor.has = true; survivor.dest = static_cast<uint8_t>(forced_dest);
		}
		const int dest = survivor.has ? survivor.dest : 0;
		Req none; const Req* cur = forced_dest < 0 ? &survivor : &none;
		Ctx c3; c3.current = cur; c3.prop = "C01"; c3.clause = "root-enter-first"; c3.skip_active = true;
		delivery(M_ENTER, SUT_INVALID, c3); T.root_open = true;
		T.open = dest; T.active = true;
		Ctx c4; c4.current = cur; c4.prop = "C01"; c4.clause = "enter-on-activation"; c4.expect_active = dest;
		delivery(M_ENTER, dest, c4);
		if (dest != 0 && forced_dest < 0) g_stats.hit("activation_in_non_initial_state");
		if (history && forced_dest >= 0) { T.prev = Req(); T.prev.has = true; T.prev.dest = static_cast<uint8_t>(forced_dest); T.prev.origin = SUT_INVALID; T.prev_alt_ok = false; }
		if (!history) { T.prev = Req(); }
	}

	void clear_on_deactivate() {
		T.active = false; T.open = -1; T.root_open = false; T.slot.clear(); T.mirror.clear(); T.task_added = false;
		memset(T.mayS, 0, 32); memset(T.mayF, 0, 32); memset(T.mustS, 0, 32);
		T.prev = Req(); T.prev_alt_ok = false;
	}

	void deactivation() {
		if (!T.active) return;
		Ctx cx; cx.expect_active = T.open; cx.prop = "C01"; cx.clause = "deactivation-exits-active-then-root";
		delivery(M_EXIT, T.open, cx);
		Ctx cr; cr.skip_active = true; cr.prop = "C01"; cr.clause = "deactivation-exits-active-then-root";
		delivery(M_EXIT, SUT_INVALID, cr);
		clear_on_deactivate();
	}

	void op_load() {
		const bool sa = x.saved_active; const int ss = x.saved_state;
		const char* P = "C12"; const char* CL = "load-performs-exactly-needed-callbacks";
		Req none;
		if (T.active && !sa) { mark_nontrivial("loads_active_to_inactive"); Ctx cx; cx.prop = P; cx.clause = CL; cx.expect_active = T.open; cx.current = &none; delivery(M_EXIT, T.open, cx); Ctx cr; cr.prop = P; cr.clause = CL; cr.skip_active = true; cr.current = &none; delivery(M_EXIT, SUT_INVALID, cr); clear_on_deactivate(); }
		else if (!T.active && sa) { mark_nontrivial("loads_inactive_to_active"); Ctx cr; cr.prop = P; cr.clause = CL; cr.skip_active = true; cr.current = &none; delivery(M_ENTER, SUT_INVALID, cr); T.root_open = true; T.active = true; T.open = ss; Ctx cx; cx.prop = P; cx.clause = CL; cx.expect_active = ss; cx.current = &none; delivery(M_ENTER, ss, cx); }
		else if (T.active && sa) {
			// the loader's own request, plan and reports do not survive a load
			T.slot.clear(); T.mirror.clear(); T.task_added = false; memset(T.mayS, 0, 32); memset(T.mayF, 0, 32); memset(T.mustS, 0, 32);
			Ctx cx; cx.prop = P; cx.clause = CL; cx.current = &none;
			if (ss != T.open) { mark_nontrivial("loads_other_state"); cx.expect_active = T.open; delivery(M_EXIT, T.open, cx); T.open = ss; cx.expect_active = ss; delivery(M_ENTER, ss, cx); }
			else { mark_nontrivial("loads_same_state"); cx.expect_active = ss; delivery(M_REENTER, ss, cx); }
		} else g_stats.hit("loads_inactive_to_inactive");
		T.prev = Req(); T.prev_alt_ok = false;
	}

	void op_replay(int dest, bool expect_ok_result) {
		if (dest == SUT_INVALID) {
			if (x.result != 0) viol("C11", "replay-invalid-returns-false", "replayTransition(invalid id) returned true");
			mark_nontrivial("replay_invalid");
			return;   // unchanged: checked by the before/after comparison
		}
		if (expect_ok_result && x.result != 1) viol("C11", "replay-applies", "replayTransition(" + S(dest) + ") returned false");
		Req none; Ctx cx; cx.prop = "C11"; cx.clause = "replay-runs-only-enter-exit-reenter"; cx.current = &none;
		if (dest != T.open) { cx.expect_active = T.open; delivery(M_EXIT, T.open, cx); forget_reports(T.open); T.open = dest; cx.expect_active = dest; delivery(M_ENTER, dest, cx); }
		else { cx.expect_active = dest; delivery(M_REENTER, dest, cx); }
		T.prev = Req(); T.prev.has = true; T.prev.dest = static_cast<uint8_t>(dest); T.prev.origin = SUT_INVALID; T.prev_alt_ok = false;
		mark_nontrivial("replayed_transitions");
	}

	//---------------------------------------------------------------------------------------------
	bool obs_equal(const Obs& a, const Obs& b, std::string& what) {
		if (a.valid != b.valid) { what = "liveness"; return false; }
		if (!a.valid) return true;
		if (a.active_id != b.active_id || memcmp(a.active, b.active, 32) != 0 || a.manual_active != b.manual_active) { what = "active state"; return false; }
		if (a.plan.tasks.size() != b.plan.tasks.size() || a.plan.nonempty != b.plan.nonempty) { what = "plan"; return false; }
		for (size_t i = 0; i < a.plan.tasks.size(); ++i) if (!task_eq(a.plan.tasks[i], b.plan.tasks[i])) { what = "plan"; return false; }
		if (a.has_prev && (a.prev.valid != b.prev.valid || (a.prev.valid && (a.prev.dest != b.prev.dest || a.prev.origin != b.prev.origin || a.prev.has_payload != b.prev.has_payload || (a.prev.has_payload && memcmp(a.prev.payload, b.prev.payload, g_info->payload_vsize) != 0))))) { what = "previousTransition()"; return false; }
		if (a.has_serial != b.has_serial || a.serial != b.serial) { what = "serialized form"; return false; }
		return true;
	}

	void check_prev(const Obs& o) {
		if (!history || !o.valid || !o.has_prev) return;
		auto matches = [&](const Req& r) {
			if (!r.has) return !o.prev.valid;
			return o.prev.valid && o.prev.dest == r.dest && o.prev.origin == r.origin && (o.prev.has_payload != 0) == r.has_payload && (!r.has_payload || memcmp(o.prev.payload, r.payload, g_info->payload_vsize) == 0);
		};
		if (matches(T.prev) || (T.prev_alt_ok && matches(T.prev_alt))) return;
		const Req& r = T.prev;
		if (!r.has) { viol("C11", "history-empty-when-nothing-applied", "previousTransition() is " + tr_str(o.prev) + " although the last step applied no transition"); return; }
		if (!o.prev.valid || o.prev.dest != r.dest) {
			viol("C11", "history-names-applied-transition", "previousTransition() is " + tr_str(o.prev) + " but the transition actually applied was " + req_str(r));
			if (r.has_payload) viol("C07", "payload-in-history", "the applied transition " + req_str(r) + " carried a payload that previousTransition() " + tr_str(o.prev) + " does not show");
			return;
		}
		if (o.prev.origin != r.origin) viol("C11", "history-origin", "previousTransition() has origin " + sid(o.prev.origin) + ", the surviving request was made by " + sid(r.origin));
		if ((o.prev.has_payload != 0) != r.has_payload || (r.has_payload && memcmp(o.prev.payload, r.payload, g_info->payload_vsize) != 0)) {
			viol("C11", "history-payload", "previousTransition() payload differs from that of the surviving request " + req_str(r));
			viol("C07", "payload-in-history", "previousTransition() payload differs from that of the surviving request " + req_str(r));
		}
	}

	void check_after(const Obs& o) {
		if (!o.valid) return;
		// C01: what the machine reports from outside
		const int m = o.active_id == SUT_INVALID ? -1 : o.active_id;
		const int want = T.active ? T.open : -1;
		if (m != want) viol("C01", "active-names-open", "after " + std::string(x.kind < OP_COUNT ? OP_NAMES[x.kind] : "the step") + " activeStateId() is " + (m < 0 ? std::string("none") : S(m)) + " but the state whose enter() ran last without exit() is " + (want < 0 ? std::string("none") : S(want)));
		int cnt = 0, which = -1; for (unsigned i = 0; i < N; ++i) if (bit_get(o.active, i)) { ++cnt; which = static_cast<int>(i); }
		if (!((m < 0 && cnt == 0) || (m >= 0 && cnt == 1 && which == m))) viol("C01", "exactly-one-active", "isActive(id) is true for " + S(cnt) + " id(s) while activeStateId() is " + (m < 0 ? std::string("none") : S(m)));
		if (!o.tmpl_ok) viol("C01", "exactly-one-active", "isActive<T>() disagrees with isActive(id)");
		if (g_info->manual && o.manual_active != (T.active ? 1 : 0)) viol("C01", "inactive-reports-none", std::string("isActive() is ") + (o.manual_active ? "true" : "false") + " on a machine that is " + (T.active ? "active" : "inactive"));
		if (plans) { check_plan_view(o.plan, "the instance after the step"); if (!o.plan_m_same) viol("C10", "iterate-equals-appended", "mutable and read-only plan views of the instance differ"); }
		check_prev(o);
		if (o.ctx_tag != n.tag && g_info->ctx_kind != X_EMPTY) viol("C06", "context", "the machine's context changed");
	}

	//---------------------------------------------------------------------------------------------
	void compare_logs() {
		const std::vector<LogEv>& act = x.logs;
		if (exp.empty() && !act.empty()) { viol("C16", "no-records-without-logger", "a record was emitted although no logger was attached at that moment (or nothing happened that it could describe)"); return; }
		static const char* const KN[] = { "method", "transition", "task-status", "plan-status", "cancellation" };
		static const char* const CLN[] = { "method-record", "transition-record", "task-status-record", "plan-status-record", "cancellation-record" };
		size_t i = 0, j = 0;
		std::map<int, int> group_hits;
		while (j < exp.size()) {
			const LogEv& e = exp[j];
			const bool opt = e.ctx_ok == 2;
			if (i < act.size() && act[i].kind == e.kind && act[i].origin == e.origin && act[i].arg == e.arg && (act[i].pos == e.pos || !opt)) {
				if (act[i].pos != e.pos) { viol("C16", "record-order", std::string(KN[e.kind]) + " record (" + sid(e.origin) + "," + S(e.arg) + ") was emitted after " + S(static_cast<int>(act[i].pos)) + " callbacks of this call, expected after " + S(static_cast<int>(e.pos))); return; }
				if (!act[i].ctx_ok) viol("C16", "record-context", "a record carried a context other than the machine's");
				if (opt) { g_stats.hit("records_for_undefined_callbacks"); ++group_hits[e.grp]; }
				++i; ++j; continue;
			}
			if (opt) { group_hits[e.grp] += 0; ++j; continue; }
			if (i < act.size()) viol("C16", CLN[e.kind], std::string("record #") + S(static_cast<int>(i)) + " is a " + KN[act[i].kind] + " record (" + sid(act[i].origin) + "," + S(act[i].arg) + "), expected a " + KN[e.kind] + " record (" + sid(e.origin) + "," + S(e.arg) + ")");
			else viol("C16", CLN[e.kind], std::string("missing ") + KN[e.kind] + " record (" + sid(e.origin) + "," + S(e.arg) + ")");
			return;
		}
		if (i < act.size()) viol("C16", CLN[act[i].kind], std::string("extra ") + KN[act[i].kind] + " record (" + sid(act[i].origin) + "," + S(act[i].arg) + ") that corresponds to nothing that happened at that moment");
		else if (g_info->f_verbose) {
			// verbose logging additionally records deliveries to classes that define no callback: exactly one record each
			for (std::map<int, int>::iterator it = group_hits.begin(); it != group_hits.end(); ++it) if (it->first > 0 && it->second != 1 && !excused_groups.count(it->first)) {
				for (size_t q = 0; q < exp.size(); ++q) if (exp[q].grp == it->first) { viol("C16", "verbose-records-every-delivery", std::string("verbose logging emitted ") + S(it->second) + " method records for the delivery of " + (exp[q].arg < M_COUNT ? METHOD_NAMES[exp[q].arg] : "?") + " to " + sid(exp[q].origin) + " (a class that does not define it); exactly one is due"); break; }
				break;
			}
		}
		if (T.logger && !exp.empty()) g_stats.hit("logged_ops");
	}

	//---------------------------------------------------------------------------------------------
	void run() {
		const int k = x.kind;
		const Tracked T0 = T;
		bool expect_no_hooks = false, expect_unchanged = false;
		switch (k) {
		case OP_CONSTRUCT: case OPX_REPLICA_CONSTRUCT:
			T = Tracked(); T.logger = T0.logger;
			if (!g_info->manual) activation(-1);
			break;
		case OP_ENTER: activation(-1); break;
		case OP_EXIT: deactivation(); break;
		case OPX_DESTROY: if (!g_info->manual) deactivation(); else expect_no_hooks = true; break;
		case OP_UPDATE: op_cycle(false); break;
		case OP_REACT: op_cycle(true); break;
		case OP_QUERY: op_query(); expect_unchanged = true; break;
		case OP_CHANGE_TO: case OP_CHANGE_WITH:
			T.slot.has = true; T.slot.from_task = false; T.slot.origin = SUT_INVALID; T.slot.dest = static_cast<uint8_t>(x.a); T.slot.has_payload = k == OP_CHANGE_WITH;
			memset(T.slot.payload, 0, SUT_MAX_PAYLOAD); if (T.slot.has_payload) memcpy(T.slot.payload, x.payload, SUT_MAX_PAYLOAD);
			explog(LOG_TRANSITION, SUT_INVALID, x.a, 0); expect_no_hooks = true; expect_unchanged = true; g_stats.hit("external_requests");
			break;
		case OP_IMM_CHANGE_TO: case OP_IMM_CHANGE_WITH:
			T.slot.has = true; T.slot.from_task = false; T.slot.origin = SUT_INVALID; T.slot.dest = static_cast<uint8_t>(x.a); T.slot.has_payload = k == OP_IMM_CHANGE_WITH;
			memset(T.slot.payload, 0, SUT_MAX_PAYLOAD); if (T.slot.has_payload) memcpy(T.slot.payload, x.payload, SUT_MAX_PAYLOAD);
			explog(LOG_TRANSITION, SUT_INVALID, x.a, 0);
			processing();
			break;
		case OP_PLAN_APPEND: case OP_PLAN_APPEND_WITH: {
			SutAction a; memset(&a, 0, sizeof(a)); a.kind = k == OP_PLAN_APPEND ? A_PLAN_APPEND : A_PLAN_APPEND_WITH; a.a = static_cast<uint8_t>(x.a); a.b = static_cast<uint8_t>(x.b); memcpy(a.payload, x.payload, SUT_MAX_PAYLOAD);
			mirror_append(a);
			if (x.result != expect_result) viol("C10", "append-result", "plan append returned " + S(x.result) + ", expected " + S(expect_result) + " with " + S(static_cast<int>(T0.mirror.size())) + " task(s) of capacity " + S(static_cast<int>(C)));
			expect_result = -1; expect_no_hooks = true; break; }
		case OP_PLAN_REMOVE_NTH:
			if (static_cast<size_t>(x.a) < T.mirror.size()) { T.mirror.erase(T.mirror.begin() + x.a); g_stats.hit("plan_iterator_removals"); }
			expect_no_hooks = true; break;
		case OP_PLAN_CLEAR: mirror_clear_user(); expect_no_hooks = true; g_stats.hit("plan_clears"); break;
		case OP_PLAN_WALK: check_walk(x.walk, x.mask, "PLAN_WALK"); expect_no_hooks = true; break;
		case OP_PLAN_FILL: {
			// conservation: whatever the history of the free list, an empty plan accepts exactly `capacity` tasks
			for (size_t i = 0; i < x.results.size(); ++i) {
				const int want = i < C ? 1 : 0;
				if (x.results[i] != want) { viol("C10", "capacity-conserved", "with an empty plan, append #" + S(static_cast<int>(i + 1)) + " of capacity " + S(static_cast<int>(C)) + " returned " + S(x.results[i])); break; }
			}
			for (size_t i = 0; i < x.filled.size() && i < C; ++i) T.mirror.push_back(x.filled[i]);
			T.task_added = true; expect_no_hooks = true; mark_nontrivial("plan_filled_to_capacity");
			break; }
		case OP_SUCCEED: bit_set(T.mayS, static_cast<unsigned>(x.a), true); explog(LOG_TASK_STATUS, x.a, 0, 0); expect_no_hooks = true; g_stats.hit("external_reports"); break;
		case OP_FAIL: bit_set(T.mayF, static_cast<unsigned>(x.a), true); explog(LOG_TASK_STATUS, x.a, 1, 0); expect_no_hooks = true; g_stats.hit("external_reports"); break;
		case OP_SAVE: expect_no_hooks = true; expect_unchanged = true; check_save(); break;
		case OP_LOAD: op_load(); break;
		case OP_REPLAY_TRANSITION: op_replay(x.a, true); if (x.a == SUT_INVALID) expect_unchanged = true; break;
		case OPX_REPLAY_MSG:
			if (x.c == 0) op_replay(x.a, true);
			else if (x.c == 1) { activation(x.a); mark_nontrivial("replay_enter"); }
			else deactivation();
			break;
		case OP_COPY: expect_no_hooks = true; break;
		case OP_LOGGER_ATTACH: T.logger = true; expect_no_hooks = true; g_stats.hit("logger_attached_later"); break;
		case OP_LOGGER_DETACH: T.logger = false; expect_no_hooks = true; g_stats.hit("logger_detached"); break;
		default: break;
		}
		if ((k == OP_CONSTRUCT && !g_info->manual) || k == OP_ENTER || k == OPX_REPLICA_CONSTRUCT) {
			if (x.after.valid && (k != OPX_REPLICA_CONSTRUCT || !g_info->manual) && x.after.active_id == SUT_INVALID)
				viol("C01", "activation-activates", "after activation the machine reports no active state");
		}
		if (x.budget_exceeded) viol("C04", "call-returns", "the call made more than the budgeted number of callbacks (guards kept being consulted)");
		if (!stop && hi < x.hooks.size()) {
			const HookEv& e = x.hooks[hi];
			const bool guard = e.flavour == CF_GUARD;
			const char* prop = "C02"; const char* clause = "no-callbacks-outside-processing";
			if (k == OP_LOAD) { prop = "C12"; clause = guard ? "load-consults-no-guards" : "load-performs-exactly-needed-callbacks"; }
			else if (k == OP_REPLAY_TRANSITION || k == OPX_REPLAY_MSG) { prop = "C11"; clause = guard ? "replay-consults-no-guards" : "replay-runs-only-enter-exit-reenter"; }
			else if (k == OP_UPDATE || k == OP_REACT || k == OP_IMM_CHANGE_TO || k == OP_IMM_CHANGE_WITH) { prop = "C02"; clause = "no-lifecycle-without-survivor"; }
			else if (k == OP_QUERY) { prop = "C05"; clause = "query-root-and-active"; }
			else if (k == OP_CONSTRUCT || k == OP_ENTER || k == OP_EXIT || k == OPX_DESTROY || k == OPX_REPLICA_CONSTRUCT) { prop = "C01"; clause = "lifecycle-pairing"; }
			viol(prop, clause, "unexpected callback " + ev_str(e) + (expect_no_hooks ? " during an operation that must not run callbacks" : " after everything this call should have delivered"));
			if (e.method == last_method && e.cls == last_cls && (n_inj(e.cls) > 0 || own_inj(e.cls)))
				viol("C15", "each-once", ev_str(e) + " ran once more than the delivery of " + METHOD_NAMES[e.method] + " to state " + sid(e.cls) + " (injections + state, each exactly once) allows");
			if (limit_reached && (k == OP_UPDATE || k == OP_REACT || k == OP_IMM_CHANGE_TO || k == OP_IMM_CHANGE_WITH) && !guard)
				viol("C04", "limit-ends-in-a-request-that-passed", "the substitution limit was reached and no request had passed its guards, yet " + ev_str(e) + " ran");
			if (k == OP_COPY) { viol("C17", "copy-runs-no-callbacks", "copy construction ran " + ev_str(e) + ": a copy must be equal to the original at the moment of copying, not re-activated"); viol("C01", "lifecycle-pairing", "copy construction ran " + ev_str(e) + " although the copied machine is already active"); }
			if (guard && (k == OP_LOAD || k == OP_REPLAY_TRANSITION || k == OPX_REPLAY_MSG)) viol("C03", "no-guards-on-replay-load", "guard " + ev_str(e) + " consulted during load/replay");
			stop = true;
		}
		if (stop && (k == OP_REPLAY_TRANSITION || (k == OPX_REPLAY_MSG && x.c != 2)) && x.a != SUT_INVALID && x.after.valid && x.after.active_id != x.a)
			viol("C14", "transition-activates-requested-state", "replaying destination " + S(x.a) + " left the machine in state " + sid(x.after.active_id));
		if (stop) { n.T = T; n.T.active = x.after.valid && x.after.active_id != SUT_INVALID; n.T.open = n.T.active ? x.after.active_id : -1; n.T.slot.clear(); if (x.after.valid) n.T.mirror = x.after.plan.tasks; n.T.prev_known = false; broken = true; return; }
		// logs
		compare_logs();
		// outside view
		if (k == OP_COPY) { std::string what; if (!obs_equal(x.before, x.after, what)) viol("C17", "copy-equal-at-copy-time", "a copy-constructed machine differs from the original in its " + what); }
		else if (expect_unchanged) { std::string what; if (!obs_equal(x.before, x.after, what)) viol(k == OP_SAVE ? "C12" : k == OP_QUERY ? "C05" : k == OP_REPLAY_TRANSITION ? "C11" : "C02", k == OP_SAVE ? "save-does-not-modify" : k == OP_QUERY ? "query-leaves-machine-unchanged" : k == OP_REPLAY_TRANSITION ? "replay-invalid-changes-nothing" : "request-does-not-change-state", std::string(OP_NAMES[k]) + " changed the machine's " + what); }
		check_after(x.after);
		if (k == OP_LOAD && x.after.valid) {
			if (x.after.has_serial && !x.loaded_bytes.empty() && x.after.serial != x.loaded_bytes) viol("C12", "canonical", "a machine that just loaded a snapshot serializes to different bytes than the snapshot");
			const bool act = x.after.active_id != SUT_INVALID;
			if (act != x.saved_active || (act && x.after.active_id != x.saved_state)) viol("C12", "round-trip", "after load() the machine is " + (act ? "in state " + S(x.after.active_id) : std::string("inactive")) + " but the snapshot was taken " + (x.saved_active ? "in state " + S(x.saved_state) : std::string("inactive")));
		}
		if ((k == OP_REPLAY_TRANSITION || (k == OPX_REPLAY_MSG && x.c != 2)) && x.a != SUT_INVALID && x.after.valid && x.after.active_id != x.a)
			viol("C14", "transition-activates-requested-state", "replaying destination " + S(x.a) + " left the machine in state " + sid(x.after.active_id));
		if (k == OPX_REPLAY_MSG && x.c != 2 && x.after.valid && x.after.active_id != x.b)
			viol("C11", "replica-in-sync", "after replaying destination " + S(x.a) + " the replica is in state " + S(x.after.active_id) + " while the authority was in state " + S(x.b) + " after that step");
	}
	bool broken = false;

	void check_save() {
		if (x.compare_bad) viol("C12", "buffers-equal-iff-activity-equal", "SerialBuffer operator==/!= disagree with the bytes of two snapshots (equal buffers must compare equal, different ones unequal)");
		if (x.save_differs) { viol("C12", "canonical", "save() of one and the same machine produced different bytes in two buffers that held different contents before the call"); viol("C17", "output-independent-of-prior-memory", "the serialized form depends on what the SerialBuffer held before save()"); }
		if (!x.canary_ok) { viol("C12", "save-stays-in-buffer", "save() wrote outside the SerialBuffer object"); viol("C18", "no-out-of-bounds-access", "save() wrote outside the SerialBuffer object (canary bytes next to it changed)"); }
		const unsigned bits = g_info->serial_bits;
		for (unsigned b = bits; b < 8u * g_info->serial_bytes; ++b) if (x.saved_bytes[b >> 3] & (1u << (b & 7))) { viol("C12", "save-stays-in-buffer", "save() left bit " + S(static_cast<int>(b)) + " set, beyond the declared capacity of " + S(static_cast<int>(bits)) + " bits (buffer was dirty before the call)"); break; }
		const int act = T.active ? T.open : -1;
		std::map<std::vector<uint8_t>, int>::iterator it = g_bytes_to_activity.find(x.saved_bytes);
		if (it == g_bytes_to_activity.end()) g_bytes_to_activity[x.saved_bytes] = act;
		else if (it->second != act) viol("C12", "canonical", "two different activity states (" + S(it->second) + " and " + S(act) + ") produced equal buffers");
		std::map<int, std::vector<uint8_t> >::iterator jt = g_activity_to_bytes.find(act);
		if (jt == g_activity_to_bytes.end()) g_activity_to_bytes[act] = x.saved_bytes;
		else if (jt->second != x.saved_bytes) viol("C12", "canonical", "the same activity state (" + S(act) + ") produced two different buffers");
		g_stats.hit("saves");
	}
};

uint64_t fnv(uint64_t h, const void* p, size_t n) { const uint8_t* b = static_cast<const uint8_t*>(p); for (size_t i = 0; i < n; ++i) { h ^= b[i]; h *= 0x100000001b3ULL; } return h; }
uint64_t fnv8(uint64_t h, uint64_t v) { return fnv(h, &v, 8); }
uint64_t hash_trans(uint64_t h, const SutTrans& t) {
	// every field, also of an invalid transition: what payload()/origin expose must not depend on build, memory or logger either
	h = fnv8(h, t.valid); h = fnv8(h, t.origin); h = fnv8(h, t.dest); h = fnv8(h, t.has_payload);
	if (t.has_payload) h = fnv(h, t.payload, g_info->payload_vsize);
	return h;
}
uint64_t hash_plan(uint64_t h, const PlanSnap& p) {
	h = fnv8(h, p.tasks.size()); h = fnv8(h, p.nonempty);
	for (size_t i = 0; i < p.tasks.size(); ++i) { h = fnv8(h, p.tasks[i].origin); h = fnv8(h, p.tasks[i].dest); h = fnv8(h, p.tasks[i].has_payload); if (p.tasks[i].has_payload) h = fnv(h, p.tasks[i].payload, g_info->payload_vsize); }
	return h;
}

} // namespace

void check_static(std::vector<Violation>& out) {
	g_bytes_to_activity.clear(); g_activity_to_bytes.clear();
	const unsigned N = g_info->n_states;
	for (unsigned i = 0; i < N; ++i) if (g_info->id_of[i] != i) {
		Violation v; v.prop = "C14"; v.clause = "stateid-is-declaration-position"; v.msg = "stateId<T>() of the state declared at position " + S(static_cast<int>(i)) + " is " + S(g_info->id_of[i]); out.push_back(v); break;
	}
	if (g_info->root_id != SUT_INVALID) { Violation v; v.prop = "C14"; v.clause = "root-has-invalid-id"; v.msg = "stateId<Root>() is " + S(g_info->root_id); out.push_back(v); }
	if (g_info->f_serial) {
		unsigned need = 1, w = 0; while ((1u << w) < N) ++w; need += w;
		if (g_info->serial_bits < need) { Violation v; v.prop = "C12"; v.clause = "capacity-suffices"; v.msg = "SerialBuffer holds " + S(g_info->serial_bits) + " bits, " + S(static_cast<int>(need)) + " are needed for " + S(static_cast<int>(N)) + " states plus the activity flag"; out.push_back(v); }
	}
	if (g_info->f_plans && g_info->lib_capacity != g_info->capacity) { Violation v; v.prop = "C10"; v.clause = "capacity-as-configured"; v.msg = "TASK_CAPACITY is " + S(g_info->lib_capacity) + ", configured " + S(g_info->capacity); out.push_back(v); }
}

void check_op(Node& n, int node_index, OpExec& x, std::vector<Violation>& out) {
	if (!x.executed) return;
	if (n.T.prev_known == false) return;     // monitoring of this instance stopped after a structural failure
	Mon m(n, x, node_index, out);
	m.run();
}

uint64_t hash_op(const OpExec& x, bool neutral) {
	if (neutral && (x.kind == OP_LOGGER_ATTACH || x.kind == OP_LOGGER_DETACH)) return 0x10661066ULL;
	uint64_t h = 0xcbf29ce484222325ULL;
	h = fnv8(h, static_cast<uint64_t>(x.kind)); h = fnv8(h, static_cast<uint64_t>(x.a)); h = fnv8(h, x.executed);
	const unsigned nb = (g_info->n_states + 7u) / 8u;
	for (size_t i = 0; i < x.hooks.size(); ++i) {
		const HookEv& e = x.hooks[i];
		h = fnv8(h, e.method | e.cls << 8 | e.inj << 16 | e.step << 24 | static_cast<uint64_t>(e.state_id) << 32 | static_cast<uint64_t>(e.flavour) << 40);
		h = hash_trans(h, e.request);
		if (e.has_pending) h = hash_trans(h, e.pending);
		if (e.has_current) h = hash_trans(h, e.current);
		h = fnv(h, e.active, nb); h = fnv8(h, static_cast<uint64_t>(e.machine_active)); h = fnv8(h, static_cast<uint64_t>(e.machine_is_active));
		h = fnv8(h, e.action.kind | e.action.a << 8 | e.action.b << 16);
		if (e.ev_type != SUT_INVALID) { h = fnv8(h, e.ev_type); h = fnv8(h, e.ev_value); }
		h = hash_plan(h, e.plan); h = fnv8(h, e.last_kind | e.last_result << 8);      // what the program sees through the plan feature (empty when compiled out)
		if (!neutral) { if (e.has_previous) h = hash_trans(h, e.previous);
			h = fnv8(h, e.ctx_tag); h = fnv8(h, e.self_hits);
		}
	}
	h = fnv8(h, static_cast<uint64_t>(x.result)); for (size_t i = 0; i < x.results.size(); ++i) h = fnv8(h, static_cast<uint64_t>(x.results[i]));
	if (!neutral) {
		for (size_t i = 0; i < x.logs.size(); ++i) h = fnv8(h, x.logs[i].kind | x.logs[i].origin << 8 | x.logs[i].arg << 16 | static_cast<uint64_t>(x.logs[i].pos) << 24);
		if (!x.saved_bytes.empty()) h = fnv(h, &x.saved_bytes[0], x.saved_bytes.size());
	}
	if (x.after.valid) {
		h = fnv8(h, static_cast<uint64_t>(x.after.active_id)); h = fnv(h, x.after.active, nb);
		h = fnv8(h, x.after.ctx_copies | static_cast<uint64_t>(x.after.ctx_moves) << 32);
		if (!neutral) { h = hash_plan(h, x.after.plan); if (x.after.has_prev) h = hash_trans(h, x.after.prev); if (x.after.has_serial) h = fnv(h, &x.after.serial[0], x.after.serial.size()); }
	} else h = fnv8(h, 0xdead);
	return h;
}

uint64_t obs_hash(const Obs& o) {
	uint64_t h = 0xcbf29ce484222325ULL;
	if (!o.valid) return h;
	h = fnv8(h, static_cast<uint64_t>(o.active_id)); h = fnv(h, o.active, 32); h = fnv8(h, static_cast<uint64_t>(o.manual_active));
	h = hash_plan(h, o.plan); if (o.has_prev) h = hash_trans(h, o.prev); if (o.has_serial) h = fnv(h, &o.serial[0], o.serial.size());
	h = fnv8(h, o.ctx_tag);
	return h;
}

uint64_t abstract_state(const Node& n, const Obs& o) {
	uint64_t h = 0xcbf29ce484222325ULL;
	const Tracked& T = n.T;
	h = fnv8(h, static_cast<uint64_t>(o.active_id)); h = fnv8(h, T.mirror.size()); h = fnv8(h, T.mirror.empty() ? 999u : T.mirror[0].origin);
	h = fnv8(h, T.slot.has ? T.slot.dest : 999u);
	if (T.open >= 0) { h = fnv8(h, bit_get(T.mayS, static_cast<unsigned>(T.open))); h = fnv8(h, bit_get(T.mayF, static_cast<unsigned>(T.open))); }
	return h;
}
