// sim_gen.cpp — case generator (swarm style) and the text form of cases (replay files)
#include "sim_core.hpp"
#include <stdio.h>
#include <stdlib.h>
#include <sstream>

const char* const OP_NAMES[OP_COUNT] = {
	"UPDATE", "REACT", "QUERY", "CHANGE_TO", "CHANGE_WITH", "IMMEDIATE_CHANGE_TO", "IMMEDIATE_CHANGE_WITH",
	"PLAN_APPEND", "PLAN_APPEND_WITH", "PLAN_REMOVE_NTH", "PLAN_CLEAR", "PLAN_WALK", "PLAN_FILL",
	"SUCCEED", "FAIL",
	"SAVE", "LOAD", "CRASH_RESTART", "CLEAN_RESTART",
	"ENTER", "EXIT", "COPY", "REPLAY_TRANSITION",
	"DELIVER", "LOGGER_ATTACH", "LOGGER_DETACH",
	"CHANNEL_DROP", "CHANNEL_DUP", "CHANNEL_SWAP",
	"CONSTRUCT"
};
const char* const METHOD_NAMES[M_COUNT] = {
	"none", "entryGuard", "enter", "reenter", "preUpdate", "update", "postUpdate",
	"preReact", "react", "query", "postReact", "exitGuard", "exit", "planSucceeded", "planFailed"
};
const char* const ACTION_NAMES[A_COUNT] = {
	"none", "cancel", "changeTo", "changeWith", "succeedSelf", "failSelf", "succeed", "fail",
	"planAppend", "planAppendWith", "planRemoveNth", "planClear", "planWalk", "loggerAttach", "loggerDetach"
};
static const char* const WHO_NAMES[4] = { "any", "root", "active", "state" };

//---------------------------------------------------------------------------------------------
// text form

static std::string hex(const uint8_t* p, int n) {
	static const char* d = "0123456789abcdef"; std::string s;
	for (int i = 0; i < n; ++i) { s += d[p[i] >> 4]; s += d[p[i] & 15]; }
	return s;
}
static bool unhex(const std::string& s, uint8_t* out, int n) {
	memset(out, 0, static_cast<size_t>(n));
	if (s.size() % 2) return false;
	for (size_t i = 0; i < s.size() / 2 && static_cast<int>(i) < n; ++i) {
		unsigned v; if (sscanf(s.c_str() + 2 * i, "%2x", &v) != 1) return false;
		out[i] = static_cast<uint8_t>(v);
	}
	return true;
}
static int last_nonzero(const uint8_t* p, int n) { int k = 0; for (int i = 0; i < n; ++i) if (p[i]) k = i + 1; return k; }

// mask[31] bit0/bit1 on a non-walk action: argument a / b means "the state this callback belongs to" (self)
static std::string arg_text(const SutAction& a, int which) {
	if (a.kind != A_PLAN_WALK && (a.mask[31] & (which ? 2 : 1))) return "self";
	return std::to_string(int(which ? a.b : a.a));
}
static std::string action_text_(const SutAction& a);
static std::string action_text(const SutAction& a) {
	std::string s = action_text_(a);
	// ",t": the typed (template) form of the call, e.g. control.changeTo<T>() instead of control.changeTo(id)
	if (a.kind != A_PLAN_WALK && a.mask[30] && !s.empty() && s[s.size() - 1] == ')') s.insert(s.size() - 1, ",t");
	// ",alias": changeWith(dest, *control.request().payload()) -- the argument is the outstanding request's own payload
	if (a.kind == A_CHANGE_WITH && a.mask[29] && !s.empty() && s[s.size() - 1] == ')') s.insert(s.size() - 1, ",alias");
	return s;
}
static std::string action_text_(const SutAction& a) {
	std::ostringstream o; o << ACTION_NAMES[a.kind];
	switch (a.kind) {
	case A_CHANGE_TO: case A_SUCCEED: case A_FAIL: o << "(" << arg_text(a, 0) << ")"; break;
	case A_PLAN_REMOVE_NTH: o << "(" << int(a.a) << ")"; break;
	case A_CHANGE_WITH: o << "(" << arg_text(a, 0) << ",p=" << hex(a.payload, SUT_MAX_PAYLOAD) << ")"; break;
	case A_PLAN_APPEND: o << "(" << arg_text(a, 0) << "," << arg_text(a, 1) << ")"; break;
	case A_PLAN_APPEND_WITH: o << "(" << arg_text(a, 0) << "," << arg_text(a, 1) << ",p=" << hex(a.payload, SUT_MAX_PAYLOAD) << ")"; break;
	case A_PLAN_WALK: o << "(m=" << hex(a.mask, last_nonzero(a.mask, 32)) << ")"; break;
	default: break;
	}
	return o.str();
}

std::string case_to_text(const Case& c) {
	std::ostringstream o;
	o << "case fill=" << int(c.fill) << " paint=" << c.paint << " logger0=" << int(c.logger0) << " replicas=" << int(c.replicas) << " in_contract=" << int(c.in_contract) << " lossy=" << int(c.lossy) << " vlog=" << int(c.vlog) << "\n";
	for (size_t i = 0; i < c.ops.size(); ++i) {
		const Op& op = c.ops[i];
		o << "op " << OP_NAMES[op.kind] << " a=" << op.a << " b=" << op.b << " c=" << op.c;
		if (op.has_payload) o << " p=" << hex(op.payload, SUT_MAX_PAYLOAD);
		int mk = last_nonzero(op.mask, 32); if (mk) o << " m=" << hex(op.mask, mk);
		o << "\n";
		for (size_t r = 0; r < op.reactions.size(); ++r) {
			const Reaction& re = op.reactions[r];
			o << "  on " << METHOD_NAMES[re.method] << " who=" << WHO_NAMES[re.who];
			if (re.who == W_STATE) o << ":" << int(re.state);
			o << " inj=" << int(re.inj) << " nth=" << int(re.nth) << " :";
			for (size_t k = 0; k < re.acts.size(); ++k) o << " " << action_text(re.acts[k]);
			o << "\n";
		}
	}
	o << "end\n";
	return o.str();
}

static int find_name(const char* const* names, int n, const std::string& s) {
	for (int i = 0; i < n; ++i) if (s == names[i]) return i;
	return -1;
}

static bool parse_action(const std::string& tok, SutAction& a) {
	memset(&a, 0, sizeof(a));
	size_t lp = tok.find('(');
	std::string name = tok.substr(0, lp), args = lp == std::string::npos ? "" : tok.substr(lp + 1, tok.size() - lp - 2);
	int k = find_name(ACTION_NAMES, A_COUNT, name); if (k < 0) return false;
	a.kind = static_cast<uint8_t>(k);
	std::vector<std::string> parts; { std::stringstream ss(args); std::string p; while (std::getline(ss, p, ',')) parts.push_back(p); }
	size_t pi = 0;
	for (size_t i = 0; i < parts.size(); ++i) {
		if (parts[i].compare(0, 2, "p=") == 0) { a.has_payload = 1; if (!unhex(parts[i].substr(2), a.payload, SUT_MAX_PAYLOAD)) return false; }
		else if (parts[i].compare(0, 2, "m=") == 0) { if (!unhex(parts[i].substr(2), a.mask, 32)) return false; }
		else if (parts[i] == "t") { a.mask[30] = 1; }
		else if (parts[i] == "alias") { a.mask[29] = 1; }
		else if (parts[i] == "self") { a.mask[31] = static_cast<uint8_t>(a.mask[31] | (pi == 0 ? 1 : 2)); ++pi; }
		else { int v = atoi(parts[i].c_str()); if (pi == 0) a.a = static_cast<uint8_t>(v); else a.b = static_cast<uint8_t>(v); ++pi; }
	}
	return true;
}

bool case_from_text(const std::string& text, Case& out, std::string& err) {
	out = Case();
	std::stringstream in(text); std::string line; bool got_case = false;
	while (std::getline(in, line)) {
		std::stringstream ls(line); std::string w; ls >> w;
		if (w.empty() || w[0] == '#') continue;
		if (w == "case") {
			got_case = true; std::string kv;
			while (ls >> kv) {
				size_t eq = kv.find('='); if (eq == std::string::npos) continue;
				std::string k = kv.substr(0, eq), v = kv.substr(eq + 1);
				if (k == "fill") out.fill = static_cast<uint8_t>(atoi(v.c_str()));
				else if (k == "paint") out.paint = strtoull(v.c_str(), 0, 10);
				else if (k == "logger0") out.logger0 = static_cast<uint8_t>(atoi(v.c_str()));
				else if (k == "replicas") out.replicas = static_cast<uint8_t>(atoi(v.c_str()));
				else if (k == "in_contract") out.in_contract = static_cast<uint8_t>(atoi(v.c_str()));
				else if (k == "lossy") out.lossy = static_cast<uint8_t>(atoi(v.c_str()));
				else if (k == "vlog") out.vlog = static_cast<uint8_t>(atoi(v.c_str()));
			}
		} else if (w == "op") {
			std::string name; ls >> name; int k = find_name(OP_NAMES, OP_COUNT, name);
			if (k < 0) { err = "unknown op " + name; return false; }
			Op op; op.kind = static_cast<uint8_t>(k); std::string kv;
			while (ls >> kv) {
				size_t eq = kv.find('='); if (eq == std::string::npos) continue;
				std::string kk = kv.substr(0, eq), v = kv.substr(eq + 1);
				if (kk == "a") op.a = atoi(v.c_str()); else if (kk == "b") op.b = atoi(v.c_str()); else if (kk == "c") op.c = atoi(v.c_str());
				else if (kk == "p") { op.has_payload = 1; unhex(v, op.payload, SUT_MAX_PAYLOAD); }
				else if (kk == "m") unhex(v, op.mask, 32);
			}
			out.ops.push_back(op);
		} else if (w == "on") {
			if (out.ops.empty()) { err = "reaction before op"; return false; }
			Reaction re; std::string m; ls >> m; int mk = find_name(METHOD_NAMES, M_COUNT, m);
			if (mk < 0) { err = "unknown method " + m; return false; }
			re.method = static_cast<uint8_t>(mk); std::string kv; bool acts = false;
			while (ls >> kv) {
				if (kv == ":") { acts = true; continue; }
				if (acts) { SutAction a; if (!parse_action(kv, a)) { err = "bad action " + kv; return false; } re.acts.push_back(a); continue; }
				size_t eq = kv.find('='); if (eq == std::string::npos) continue;
				std::string kk = kv.substr(0, eq), v = kv.substr(eq + 1);
				if (kk == "who") {
					size_t col = v.find(':'); std::string wn = v.substr(0, col);
					int wk = find_name(WHO_NAMES, 4, wn); if (wk < 0) { err = "bad who"; return false; }
					re.who = static_cast<uint8_t>(wk);
					if (col != std::string::npos) re.state = static_cast<uint8_t>(atoi(v.c_str() + col + 1));
				} else if (kk == "inj") re.inj = static_cast<uint8_t>(atoi(v.c_str()));
				else if (kk == "nth") re.nth = static_cast<uint8_t>(atoi(v.c_str()));
			}
			out.ops.back().reactions.push_back(re);
		} else if (w == "end") break;
	}
	if (!got_case) { err = "no case line"; return false; }
	if (out.ops.empty() || out.ops[0].kind != OP_CONSTRUCT) { Op c; c.kind = OP_CONSTRUCT; out.ops.insert(out.ops.begin(), c); }
	return true;
}

//---------------------------------------------------------------------------------------------
// generator

namespace {

struct Gen {
	Rng& rng; const SutInfo& info; const GenProfile& prof;
	unsigned N, C; bool plans, serial, history, log, manual, payload, root_outcomes;
	uint32_t payload_counter = 1;
	// run-level swarm knobs
	int hostility = 0;      // percent chance that a guard reaction cancels
	int redirect = 0;       // percent chance that a guard reaction redirects
	int react_density = 0;  // percent chance per op to carry reactions
	int plan_density = 0;
	int small_targets = 0;  // bias state indices into 0..3
	bool logger_midop = false; // attach/detach the logger from inside callbacks
	bool story = false;     // plan story: tasks of the active state, the active state reporting, vetoes of the fired request

	Gen(Rng& r, const SutInfo& i, const GenProfile& p) : rng(r), info(i), prof(p) {
		const bool uP = prof.use.find('P') != std::string::npos, uS = prof.use.find('S') != std::string::npos, uH = prof.use.find('H') != std::string::npos;
		N = info.n_states; C = info.capacity; plans = info.f_plans && (!prof.neutral || uP); serial = info.f_serial && (!prof.neutral || uS);
		history = info.f_history && (!prof.neutral || uH); log = info.f_log && !prof.neutral && !prof.ignore_log; manual = info.manual; payload = info.payload_kind != 0;
		root_outcomes = info.defines[SUT_INVALID][M_PLAN_SUCCEEDED] && info.defines[SUT_INVALID][M_PLAN_FAILED];
	}

	int state() {
		if (small_targets && rng.chance(7, 10)) return static_cast<int>(rng.below(N < 4 ? N : 4));
		return static_cast<int>(rng.below(N));
	}
	void make_payload(uint8_t* out) {
		memset(out, 0, SUT_MAX_PAYLOAD);
		uint32_t c = payload_counter++;
		out[0] = static_cast<uint8_t>(c); out[1] = static_cast<uint8_t>(c >> 8);
		for (int i = 2; i < SUT_MAX_PAYLOAD; ++i) out[i] = static_cast<uint8_t>(rng.next());
		if (info.payload_kind == P_F64) { out[7] = static_cast<uint8_t>(out[7] & 0x3f); }  // keep doubles finite, NaN-free
		for (int i = info.payload_vsize; i < SUT_MAX_PAYLOAD; ++i) out[i] = 0;
	}

	SutAction action_for(int flavour, bool is_root, bool in_guard) {
		SutAction a; memset(&a, 0, sizeof(a));
		for (int tries = 0; tries < 8; ++tries) {
			int r = static_cast<int>(rng.below(100));
			if (flavour == CF_CONST) { a.kind = A_NONE; return a; }
			if (flavour == CF_PLAN) {
				if (!plans) { a.kind = A_NONE; return a; }
				return plan_action();
			}
			if (in_guard) {
				if (r < hostility) { a.kind = A_CANCEL; return a; }
				if (r < hostility + redirect) return change_action();
			} else {
				if (r < 45) return change_action();
			}
			if (plans && root_outcomes && r < 80) {
				int k = static_cast<int>(rng.below(10));
				if (k < 4 && !is_root) { a.kind = A_SUCCEED_SELF; return a; }
				if (k < 6 && !is_root) { a.kind = A_FAIL_SELF; return a; }
				if (k < 8) { a.kind = A_SUCCEED; a.a = static_cast<uint8_t>(state()); maybe_self(a, 0, 30); maybe_typed(a); return a; }
				a.kind = A_FAIL; a.a = static_cast<uint8_t>(state()); maybe_self(a, 0, 30); maybe_typed(a); return a;
			}
			if (plans) return plan_action();
			if (!in_guard) return change_action();
		}
		return change_action();
	}
	void maybe_typed(SutAction& a) { if (rng.chance(15, 100)) a.mask[30] = 1; }
	void maybe_self(SutAction& a, int which, int pct) { if (rng.chance(static_cast<uint32_t>(pct), 100)) a.mask[31] = static_cast<uint8_t>(a.mask[31] | (which ? 2 : 1)); }
	SutAction change_action() {
		SutAction a; memset(&a, 0, sizeof(a));
		a.a = static_cast<uint8_t>(state()); maybe_self(a, 0, 8); maybe_typed(a);
		if (payload && rng.chance(1, 2)) { a.kind = A_CHANGE_WITH; a.has_payload = 1; make_payload(a.payload); if (rng.chance(1, 8)) { a.mask[29] = 1; a.mask[30] = 0; } }
		else a.kind = A_CHANGE_TO;
		return a;
	}
	SutAction plan_action() {
		SutAction a; memset(&a, 0, sizeof(a));
		int r = static_cast<int>(rng.below(100));
		if (r < 60) {
			a.a = static_cast<uint8_t>(state()); a.b = static_cast<uint8_t>(rng.chance(1, 6) ? a.a : state());
			maybe_self(a, 0, 45); maybe_self(a, 1, 8); maybe_typed(a);
			if (payload && rng.chance(1, 2)) { a.kind = A_PLAN_APPEND_WITH; a.has_payload = 1; make_payload(a.payload); }
			else a.kind = A_PLAN_APPEND;
		} else if (r < 78) { a.kind = A_PLAN_REMOVE_NTH; a.a = static_cast<uint8_t>(rng.below(4)); }
		else if (r < 88) { a.kind = A_PLAN_CLEAR; }
		else { a.kind = A_PLAN_WALK; for (int i = 0; i < 4; ++i) a.mask[i] = static_cast<uint8_t>(rng.next() & rng.next()); }
		return a;
	}

	static int flavour_of(int method) {
		switch (method) {
		case M_ENTRY_GUARD: case M_EXIT_GUARD: return CF_GUARD;
		case M_ENTER: case M_REENTER: case M_EXIT: return CF_PLAN;
		case M_QUERY: return CF_CONST;
		default: return CF_FULL;
		}
	}

	void add_reactions(Op& op, const int* methods, int n_methods, bool activation) {
		if (!rng.chance(static_cast<uint32_t>(react_density), 100)) return;
		int count = 1 + static_cast<int>(rng.below(rng.chance(1, 4) ? 5 : 2));
		for (int i = 0; i < count; ++i) {
			Reaction re;
			re.method = static_cast<uint8_t>(methods[rng.below(static_cast<uint32_t>(n_methods))]);
			int w = static_cast<int>(rng.below(100));
			bool outcome = re.method == M_PLAN_SUCCEEDED || re.method == M_PLAN_FAILED;
			if (outcome) re.who = W_ROOT;
			else if (w < 40) re.who = W_ACTIVE;
			else if (w < 55) re.who = W_ROOT;
			else if (w < 80) re.who = W_ANY;
			else { re.who = W_STATE; re.state = static_cast<uint8_t>(state()); }
			int ij = static_cast<int>(rng.below(100));
			re.inj = ij < 70 ? 0 : ij < 85 ? 255 : static_cast<uint8_t>(1 + rng.below(3));
			int nt = static_cast<int>(rng.below(100));
			re.nth = nt < 55 ? 0 : nt < 70 ? 1 : nt < 78 ? 2 : 255;
			int fl = flavour_of(re.method);
			bool guard = fl == CF_GUARD;
			int na = 1 + static_cast<int>(rng.below(rng.chance(1, 5) ? 3 : 1));
			for (int k = 0; k < na; ++k) {
				SutAction a = action_for(fl, re.who == W_ROOT, guard);
				if (a.kind == A_NONE) continue;
				if (activation && a.kind == A_CANCEL) continue;       // out of contract (FFSM2_BREAK in initialEnter)
				re.acts.push_back(a);
			}
			if (log && logger_midop && rng.chance(1, 6)) { SutAction t; memset(&t, 0, sizeof(t)); t.kind = rng.chance(1, 2) ? A_LOGGER_ATTACH : A_LOGGER_DETACH; re.acts.insert(re.acts.begin() + static_cast<long>(rng.below(static_cast<uint32_t>(re.acts.size() + 1))), t); }
			if (!re.acts.empty()) op.reactions.push_back(re);
		}
	}

	Op make_op(int kind) {
		Op op; op.kind = static_cast<uint8_t>(kind);
		static const int upd[] = { M_PRE_UPDATE, M_UPDATE, M_POST_UPDATE, M_EXIT_GUARD, M_ENTRY_GUARD, M_ENTRY_GUARD, M_EXIT_GUARD, M_EXIT, M_ENTER, M_REENTER, M_PLAN_SUCCEEDED, M_PLAN_FAILED };
		static const int rea[] = { M_PRE_REACT, M_REACT, M_POST_REACT, M_EXIT_GUARD, M_ENTRY_GUARD, M_ENTRY_GUARD, M_EXIT_GUARD, M_EXIT, M_ENTER, M_REENTER, M_PLAN_SUCCEEDED, M_PLAN_FAILED };
		static const int imm[] = { M_EXIT_GUARD, M_ENTRY_GUARD, M_ENTRY_GUARD, M_EXIT, M_ENTER, M_REENTER };
		static const int act[] = { M_ENTRY_GUARD, M_ENTRY_GUARD, M_ENTER };
		static const int lif[] = { M_EXIT, M_ENTER, M_REENTER };
		static const int qry[] = { M_QUERY };
		if (story && (kind == OP_UPDATE || kind == OP_REACT) && rng.chance(3, 4)) {
			// the active state (or one of its injections, or the root) reports in one of the phase callbacks
			Reaction re; const bool rc = kind == OP_REACT;
			const int ph = static_cast<int>(rng.below(3));
			re.method = static_cast<uint8_t>(rc ? (ph == 0 ? M_PRE_REACT : ph == 1 ? M_REACT : M_POST_REACT) : (ph == 0 ? M_PRE_UPDATE : ph == 1 ? M_UPDATE : M_POST_UPDATE));
			re.who = rng.chance(5, 6) ? W_ACTIVE : W_ROOT; re.inj = rng.chance(5, 6) ? 0 : 255; re.nth = 0;
			SutAction a; memset(&a, 0, sizeof(a));
			const int r = static_cast<int>(rng.below(100));
			if (re.who == W_ROOT) { a.kind = r < 70 ? A_SUCCEED : A_FAIL; a.a = static_cast<uint8_t>(state()); if (rng.chance(2, 3)) a.mask[31] = 1; }
			else a.kind = r < 65 ? A_SUCCEED_SELF : r < 85 ? A_FAIL_SELF : r < 93 ? A_SUCCEED : A_FAIL;
			if (a.kind == A_SUCCEED || a.kind == A_FAIL) { if (!a.mask[31]) a.a = static_cast<uint8_t>(state()); maybe_typed(a); }
			re.acts.push_back(a);
			if (rng.chance(1, 5)) re.acts.push_back(plan_action());
			op.reactions.push_back(re);
		}
		switch (kind) {
		case OP_UPDATE: add_reactions(op, upd, plans ? 12 : 10, false); break;
		case OP_REACT: op.a = static_cast<int>(rng.below(3)); op.b = static_cast<int>(rng.next() & 0x7fffffff); add_reactions(op, rea, plans ? 12 : 10, false); break;
		case OP_QUERY: op.a = static_cast<int>(rng.below(3)); op.b = static_cast<int>(rng.next() & 0x7fffffff); add_reactions(op, qry, 1, false); break;
		case OP_CHANGE_TO: op.a = state(); op.c = (rng.chance(1, 12) ? 1 : 0) | (rng.chance(15, 100) ? 4 : 0); break;
		case OP_CHANGE_WITH: op.a = state(); op.c = (rng.chance(1, 12) ? 1 : 0) | (rng.chance(15, 100) ? 4 : 0); op.has_payload = 1; make_payload(op.payload); break;
		case OP_IMM_CHANGE_TO: op.a = state(); op.c = (rng.chance(1, 12) ? 1 : 0) | (rng.chance(15, 100) ? 4 : 0); add_reactions(op, imm, 6, false); break;
		case OP_IMM_CHANGE_WITH: op.a = state(); op.c = (rng.chance(1, 12) ? 1 : 0) | (rng.chance(15, 100) ? 4 : 0); op.has_payload = 1; make_payload(op.payload); add_reactions(op, imm, 6, false); break;
		case OP_PLAN_APPEND: op.a = state(); op.b = rng.chance(1, 6) ? op.a : state(); op.c = (rng.chance(45, 100) ? 1 : 0) | (rng.chance(1, 12) ? 2 : 0) | (rng.chance(15, 100) ? 4 : 0); break;
		case OP_PLAN_APPEND_WITH: op.a = state(); op.b = rng.chance(1, 6) ? op.a : state(); op.c = (rng.chance(45, 100) ? 1 : 0) | (rng.chance(1, 12) ? 2 : 0) | (rng.chance(15, 100) ? 4 : 0); op.has_payload = 1; make_payload(op.payload); break;
		case OP_PLAN_REMOVE_NTH: op.a = static_cast<int>(rng.below(5)); break;
		case OP_PLAN_WALK: for (int i = 0; i < 4; ++i) op.mask[i] = static_cast<uint8_t>(rng.next() & rng.next()); break;
		case OP_PLAN_FILL: op.a = state(); op.b = state(); op.c = rng.chance(1, 3) ? 1 : 0; break;
		case OP_SUCCEED: case OP_FAIL: op.a = state(); op.c = (rng.chance(1, 2) ? 1 : 0) | (rng.chance(15, 100) ? 4 : 0); break;
		case OP_LOAD: op.a = static_cast<int>(rng.below(8)); add_reactions(op, lif, 3, false); break;
		case OP_CRASH_RESTART: op.a = static_cast<int>(rng.below(8)); add_reactions(op, act, 3, true); break;
		case OP_CLEAN_RESTART: add_reactions(op, act, 3, true); break;
		case OP_ENTER: add_reactions(op, act, 3, true); break;
		case OP_EXIT: add_reactions(op, lif, 1, false); break;
		case OP_REPLAY_TRANSITION: op.a = rng.chance(1, 6) ? SUT_INVALID : state(); op.c = rng.chance(1, 4) ? 1 : 0; add_reactions(op, lif, 3, false); break;
		case OP_COPY: op.b = rng.chance(1, 3) ? 1 : 0; break;
		case OP_DELIVER: op.a = 1 + static_cast<int>(rng.below(4)); break;
		case OP_CONSTRUCT: add_reactions(op, act, 3, true); break;
		default: break;
		}
		return op;
	}

	Case run() {
		Case c;
		c.fill = static_cast<uint8_t>(rng.below(4));
		c.paint = rng.next();
		c.logger0 = log ? static_cast<uint8_t>(rng.below(2)) : 0;
		c.in_contract = prof.in_contract ? 1 : 0;
		static const int hs[] = { 0, 0, 10, 30, 60, 100 };
		static const int rs[] = { 0, 15, 30, 50, 80, 100 };
		hostility = hs[rng.below(6)]; redirect = rs[rng.below(6)];
		if (hostility + redirect > 100) redirect = 100 - hostility;
		static const int ds[] = { 25, 50, 75, 100 };
		react_density = ds[rng.below(4)];
		plan_density = plans ? static_cast<int>(rng.below(4)) : 0;
		small_targets = rng.chance(1, 2) ? 1 : 0;
		bool do_serial = serial && rng.chance(1, 2);
		bool do_copy = rng.chance(1, 3);      // copies and moves are feature-neutral
		bool do_crash = do_serial && rng.chance(1, 2);
		bool do_replica = history && rng.chance(1, 3);
		bool do_replay_self = history && !do_replica && rng.chance(1, 4);
		bool do_logger_ops = log && rng.chance(1, 3);
		bool do_manual_cycle = manual && rng.chance(1, 2);
		const std::string& P = prof.prop;
		if (P == "C10") { plan_density = 3; }
		if (P == "C08" || P == "C09") { if (plan_density < 2) plan_density = 2; }
		if (P == "C12") { do_serial = serial; do_crash = serial && rng.chance(2, 3); }
		if (P == "C11") { do_replica = history && rng.chance(2, 3); do_replay_self = history && !do_replica; }
		if (P == "C17") { do_copy = true; }
		if (P == "C16") { do_logger_ops = log && rng.chance(2, 3); }
		logger_midop = log && rng.chance(P == "C16" ? 40u : 10u, 100);
		if (P == "C04") { hostility = rng.chance(1, 3) ? 20 : 0; redirect = 100 - hostility; react_density = 100; }
		if (P == "C03") { if (hostility + redirect < 60) { hostility = 40; redirect = 40; } react_density = 100; }
		if (do_replica) { c.replicas = static_cast<uint8_t>(1 + rng.below(2)); do_serial = false; do_crash = false; do_replay_self = false; }
		if (info.f_verbose && log && plans && !root_outcomes && rng.chance(3, 5)) {
			// no plan-outcome callbacks on this machine, but a verbose logger that stays attached shows the outcomes
			c.vlog = 1; c.logger0 = 1; do_logger_ops = false; logger_midop = false; root_outcomes = true;
		}
		story = plans && root_outcomes && rng.chance((P == "C08" || P == "C09") ? 60u : 15u, 100);
		if (story) { if (plan_density < 2) plan_density = 2; if (hostility > 30) hostility = 30; }

		int len;
		// many short histories, a tail of long ones (counters that must wrap, free lists in one particular shape)
		{ int r = static_cast<int>(rng.below(100)); len = r < 55 ? rng.range(1, 8) : r < 85 ? rng.range(9, 20) : r < 97 ? rng.range(21, 48) : rng.range(49, prof.max_ops > 49 ? prof.max_ops : 49); }

		// weighted op table for this run
		std::vector<int> table;
		#define W(k, w) for (int _i = 0; _i < (w); ++_i) table.push_back(k)
		W(OP_UPDATE, story ? 22 : 10); W(OP_REACT, story ? 8 : 5); W(OP_QUERY, 2);
		W(OP_CHANGE_TO, 6); W(OP_IMM_CHANGE_TO, 6);
		if (payload) { W(OP_CHANGE_WITH, 5); W(OP_IMM_CHANGE_WITH, 5); }
		if (plans) {
			int d = plan_density;
			W(OP_PLAN_APPEND, 2 * d); if (payload) W(OP_PLAN_APPEND_WITH, 2 * d);
			W(OP_PLAN_REMOVE_NTH, d); W(OP_PLAN_CLEAR, d > 1 ? 1 : 0); W(OP_PLAN_WALK, d); W(OP_PLAN_FILL, d > 2 ? 2 : (d ? 1 : 0));
			if (root_outcomes) { W(OP_SUCCEED, 2 * d); W(OP_FAIL, d); }
		}
		if (do_serial) { W(OP_SAVE, 5); W(OP_LOAD, 5); }
		if (do_crash) { W(OP_CRASH_RESTART, 2); }
		if (!prof.neutral && rng.chance(1, 4)) W(OP_CLEAN_RESTART, 1);
		if (do_manual_cycle) { W(OP_ENTER, 3); W(OP_EXIT, 3); } else if (manual) { W(OP_ENTER, 1); }
		if (do_copy) W(OP_COPY, 2);
		if (do_replay_self) W(OP_REPLAY_TRANSITION, 5);
		if (c.replicas) W(OP_DELIVER, 6);
		if (c.replicas && rng.chance(1, 2)) { c.lossy = 1; W(OP_CHANNEL_DROP, 2); W(OP_CHANNEL_DUP, 2); W(OP_CHANNEL_SWAP, 2); }
		if (do_logger_ops) { W(OP_LOGGER_ATTACH, 2); W(OP_LOGGER_DETACH, 2); }
		#undef W

		c.ops.push_back(make_op(OP_CONSTRUCT));
		if (manual && plans && rng.chance(1, 6)) {
			// a plan prepared before the machine is entered (and perhaps a copy of the prepared, still inactive machine)
			const int np = rng.range(1, 3);
			for (int i = 0; i < np; ++i) c.ops.push_back(make_op(payload && rng.chance(1, 2) ? OP_PLAN_APPEND_WITH : OP_PLAN_APPEND));
			if (do_copy && rng.chance(1, 2)) c.ops.push_back(make_op(OP_COPY));
		}
		if (manual) { Op e = make_op(OP_ENTER); if (rng.chance(9, 10)) c.ops.push_back(e); }
		for (int i = 0; i < len; ++i) {
			int k = table[rng.below(static_cast<uint32_t>(table.size()))];
			c.ops.push_back(make_op(k));
			// fault placement biased into in-flight state
			if ((k == OP_CHANGE_TO || k == OP_CHANGE_WITH || k == OP_PLAN_APPEND) && rng.chance(1, 5)) {
				if (do_copy && rng.chance(1, 2)) c.ops.push_back(make_op(OP_COPY));
				else if (do_serial) c.ops.push_back(make_op(rng.chance(1, 2) ? OP_LOAD : OP_SAVE));
			}
		}
		if (c.replicas) { Op d = make_op(OP_DELIVER); d.a = 64; c.ops.push_back(d); }
		return c;
	}
};

} // namespace

Case generate_case(Rng& rng, const SutInfo& info, const GenProfile& prof) {
	Gen g(rng, info, prof);
	return g.run();
}
