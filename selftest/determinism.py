#!/usr/bin/env python3
"""Determinism self-test: per-run full event-trace digests must not depend on the process, on how runs are split over
workers, on ASLR or on the time of day. usage: selftest/determinism.py [runs-per-variant] [prop ...]"""
import sys, os, subprocess, re
from concurrent.futures import ThreadPoolExecutor
ROOT = os.path.dirname(os.path.dirname(os.path.abspath(__file__)))
sys.path.insert(0, ROOT)
sys.path.insert(0, os.path.join(ROOT, 'sim'))
import importlib.machinery, importlib.util
loader = importlib.machinery.SourceFileLoader('check', os.path.join(ROOT, 'check'))
spec = importlib.util.spec_from_loader('check', loader)
check = importlib.util.module_from_spec(spec)
loader.exec_module(check)
import variants as VAR

def digests(exe, prop, a, b, seed):
    r = subprocess.run([exe, '--prop', prop, '--seed', str(seed), '--from', str(a), '--to', str(b), '--digests', '--quiet', '--no-shrink'], capture_output=True, text=True)
    out = {}
    for line in r.stdout.splitlines():
        if line.startswith('DIGEST '):
            kv = dict(m.groups() for m in re.finditer(r'(\w+)=(\S+)', line))
            out[int(kv['run'])] = (kv['full'], kv['neutral'])
    return out

def main():
    n = int(sys.argv[1]) if len(sys.argv) > 1 else 2000
    props = sys.argv[2:] or ['C01', 'C10', 'C12', 'C16']
    bad = 0; total = 0
    for prop in props:
        vs = VAR.catalogue(prop, 'quick')
        bdir, built = check.build_all(vs)
        seen = set()
        for v in vs:
            if v['name'] in seen or built[v['name']][1]:
                continue
            seen.add(v['name'])
            exe = built[v['name']][0]
            for seed in (1, 77):
                a = digests(exe, prop, 0, n, seed)
                parts = [(i * n // 5, (i + 1) * n // 5) for i in range(5)]
                with ThreadPoolExecutor(5) as ex:
                    bs = list(ex.map(lambda p: digests(exe, prop, p[0], p[1], seed), parts))
                b = {}
                for d in bs:
                    b.update(d)
                env_c = digests(exe, prop, 0, n, seed)
                total += len(a)
                diff = [k for k in a if a[k] != b.get(k) or a[k] != env_c.get(k)]
                if diff or len(a) != n:
                    bad += 1
                    print('NONDETERMINISTIC %s %s seed=%d: %d of %d runs differ (first: run %s)' % (prop, v['name'], seed, len(diff), len(a), diff[:1]))
    print('determinism: %d run digests compared three ways (1 process, 5 parallel processes, repeated), %d variant/seed combinations differ' % (total, bad))
    sys.exit(1 if bad else 0)

main()
