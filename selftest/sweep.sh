#!/bin/bash
# false-alarm guard: every check on the unchanged tree, several seeds; any VIOLATION/HARNESS line is a defect of the machinery or of /repo
# usage: selftest/sweep.sh <tier> <seed> [seed ...]
cd "$(dirname "$0")/.."
tier=$1; shift
export VERIF_EVIDENCE=${VERIF_EVIDENCE:-/tmp/ffsm2_sweep_evidence} VERIF_REPLAYS=${VERIF_REPLAYS:-$PWD/replays}
for seed in "$@"; do
  for p in C01 C02 C03 C04 C05 C06 C07 C08 C09 C10 C11 C12 C14 C15 C16 C17 C18 C19; do
    VERIF_SEED=$seed VERIF_DEBUG=1 ./check $p $tier 2>&1 | grep -E "OTHER|VIOLATION|HARNESS|$tier:|^  " | cut -c1-300 | sed "s/^/seed=$seed /"
  done
done
