#!/usr/bin/env python3
"""Sensitivity self-test: run the quick check of the property each seeded change breaks against a scratch
copy of /repo with the change applied (never /repo itself), and record which checks catch it.

  selftest/run_mutants.py [--all-props] [id ...]      ids: C01-1 ... (seeded/) or revert-F1 ... (selftest/mutants/)
"""
import sys, os, json, subprocess, shutil, glob, re, time
from concurrent.futures import ThreadPoolExecutor

ROOT = os.path.dirname(os.path.dirname(os.path.abspath(__file__)))
SCR = '/tmp/ffsm2_mut'
REVERT_PROPS = {'revert-F1': ['C02', 'C03', 'C07', 'C11'], 'revert-F2': ['C06', 'C08'], 'revert-F3': ['C11', 'C17'], 'revert-F5': ['C18'],
                'revert-F6': ['C09', 'C17', 'C18'], 'revert-F7': ['C19'], 'revert-F8': ['C11']}
ALL = ['C01', 'C02', 'C03', 'C04', 'C05', 'C06', 'C07', 'C08', 'C09', 'C10', 'C11', 'C12', 'C14', 'C15', 'C16', 'C17', 'C18', 'C19']


def mutants():
    out = {}
    for d in sorted(glob.glob(os.path.join(ROOT, 'seeded', '*'))):
        mid = os.path.basename(d)
        out[mid] = (os.path.join(d, 'patch.diff'), [json.load(open(os.path.join(d, 'meta.json')))['property']])
    for p in sorted(glob.glob(os.path.join(ROOT, 'selftest', 'mutants', '*.patch'))):
        mid = os.path.basename(p)[:-6]
        idx = {}
        ip = os.path.join(ROOT, 'selftest', 'mutants', 'index.json')
        if os.path.exists(ip):
            idx = json.load(open(ip))
        out[mid] = (p, REVERT_PROPS.get(mid) or idx.get(mid) or ALL)
    for p in sorted(glob.glob(os.path.join(ROOT, 'selftest', 'preserving', '*.patch'))):
        out[os.path.basename(p)[:-6]] = (p, ALL)      # behaviour-preserving edits: every check must stay silent
    return out


def run_one(mid, patch, props, tier):
    d = os.path.join(SCR, mid)
    shutil.rmtree(d, ignore_errors=True)
    os.makedirs(d)
    for sub in ('include', 'development', 'tools'):
        shutil.copytree(os.path.join('/repo', sub), os.path.join(d, sub))
    r = subprocess.run(['patch', '-p1', '-s', '-i', patch], cwd=d, capture_output=True, text=True)
    if r.returncode != 0:
        return mid, {'error': 'patch failed: ' + r.stdout + r.stderr}
    env = dict(os.environ, VERIF_REPO=d, VERIF_KEEP_BUILDS='1', VERIF_REPLAYS=os.path.join(d, 'replays'), VERIF_EVIDENCE=os.path.join(d, 'evidence'), VERIF_JOBS=os.environ.get('MUT_JOBS', '6'))
    res = {}
    for p in props:
        t0 = time.time()
        r = subprocess.run([os.path.join(ROOT, 'check'), p, tier], capture_output=True, text=True, env=env, cwd=ROOT)
        lines = [l for l in r.stdout.splitlines() if l.startswith('VIOLATION') or l.startswith('  ') or 'HARNESS' in l]
        clause = ''
        m = re.search(r'clause=(\S+)', r.stdout)
        if m:
            clause = m.group(1)
        res[p] = {'exit': r.returncode, 'clause': clause, 'detail': ' | '.join(l.strip() for l in lines)[:400], 'wall_s': round(time.time() - t0, 1)}
        tree = re.search(r'tree=(\w+)', r.stdout)
        if tree:
            shutil.rmtree(os.path.join(ROOT, 'build', tree.group(1)), ignore_errors=True)
    shutil.rmtree(d, ignore_errors=True)
    return mid, res


def main():
    args = [a for a in sys.argv[1:] if not a.startswith('--')]
    allp = '--all-props' in sys.argv
    only = [a.split('=', 1)[1].split(',') for a in sys.argv if a.startswith('--props=')]
    tier = 'thorough' if '--thorough' in sys.argv else 'quick'
    ms = mutants()
    ids = args or sorted(i for i in ms if not i.startswith('bp-'))
    if '--preserving' in sys.argv:
        ids = sorted(i for i in ms if i.startswith('bp-'))
    os.makedirs(SCR, exist_ok=True)
    results = {}
    out = os.environ.get('MUT_OUT') or os.path.join(ROOT, 'selftest', 'mutant_results_%s.json' % tier)
    def save():
        old = {}
        if os.path.exists(out):
            old = json.load(open(out))
        for k, v in results.items():          # merge per check: a later own-property run keeps earlier all-props entries
            if isinstance(old.get(k), dict) and isinstance(v, dict):
                old[k].update(v)
            else:
                old[k] = v
        json.dump(old, open(out, 'w'), indent=1, sort_keys=True)
    with ThreadPoolExecutor(int(os.environ.get('MUT_PAR', '3'))) as ex:
        futs = [ex.submit(run_one, i, ms[i][0], only[0] if only else (ALL if allp else ms[i][1]), tier) for i in ids]
        for f in futs:
            mid, res = f.result()
            results[mid] = res
            save()
            own = ms[mid][1]
            caught = [p for p, r in res.items() if isinstance(r, dict) and r.get('exit') == 1 and r.get('detail', '').strip()]
            print('%-10s own=%s caught_by=%s %s' % (mid, ','.join(own), ','.join(caught) or '-', ' ; '.join('%s:%s' % (p, r.get('clause')) for p, r in res.items() if isinstance(r, dict) and r.get('exit') == 1 and r.get('detail', '').strip())), flush=True)
            for p, r in res.items():
                if isinstance(r, dict) and r.get('exit') not in (0, 1):
                    print('    %s exit=%s %s' % (p, r.get('exit'), r.get('detail', '')[:300]), flush=True)
    shutil.rmtree(SCR, ignore_errors=True)


if __name__ == '__main__':
    main()
